//! Explicit-state search over the interleavings of one program. A state is reached by
//! replaying a schedule prefix on freshly built real happylock objects; states are
//! de-duplicated on a canonical fingerprint (DESIGN.md §3.6).

use std::collections::hash_map::DefaultHasher;
use std::collections::HashSet;
use std::hash::{Hash, Hasher};
use std::sync::Arc;

use crate::interp::{self, Program};
use crate::rt::{self, Act, Exec, Gran, Mode, Pending, Status, Violation};
use crate::spec::{Target, World};
use crate::world::{Arena, Store};

#[derive(Clone, Debug)]
pub struct Cfg {
	/// None = all interleavings
	pub max_preemptions: Option<u32>,
	/// a retrying acquisition may start over at most this many times under adversarial scheduling
	pub retry_rounds: u32,
	/// horizon (points) for the run-to-block completion
	pub horizon: u32,
	pub state_cap: usize,
	pub gran: Gran,
	/// stop at the first violation of this program
	pub stop_at_first: bool,
}
impl Default for Cfg {
	fn default() -> Self {
		Cfg { max_preemptions: None, retry_rounds: 2, horizon: 400, state_cap: 5_000_000, gran: Gran::RawOp, stop_at_first: true }
	}
}

#[derive(Clone, Debug, Default)]
pub struct Stats {
	pub states: u64,
	pub transitions: u64,
	pub replays: u64,
	pub replay_steps: u64,
	pub executions: u64,
	pub terminal: u64,
	pub blocked_states: u64,
	pub completions: u64,
	pub max_depth: usize,
	pub distinct_outcomes: usize,
	pub env_retry_cut: u64,
	pub cap_hit: bool,
}
impl Stats {
	pub fn add(&mut self, o: &Stats) {
		self.states += o.states;
		self.transitions += o.transitions;
		self.replays += o.replays;
		self.replay_steps += o.replay_steps;
		self.executions += o.executions;
		self.terminal += o.terminal;
		self.blocked_states += o.blocked_states;
		self.completions += o.completions;
		self.max_depth = self.max_depth.max(o.max_depth);
		self.distinct_outcomes += o.distinct_outcomes;
		self.env_retry_cut += o.env_retry_cut;
		self.cap_hit |= o.cap_hit;
	}
}

#[derive(Clone, Debug)]
pub struct Found {
	pub violation: Violation,
	pub schedule: Vec<(u8, u16)>,
}

pub struct Outcome {
	pub stats: Stats,
	pub found: Vec<Found>,
	pub machinery: Option<String>,
	pub sample_schedule: Vec<(u8, u16)>,
}

struct Snap {
	key: (u64, u64),
	enabled: Vec<(u8, u16)>,
	all_finished: bool,
	any_blocked: bool,
	violations: Vec<Violation>,
	machinery: Option<String>,
	retry_exceeded: bool,
	last_enabled: bool,
	last: Option<usize>,
	preemptions: u32,
	outcome_hash: u64,
	unfinished: Vec<String>,
}

fn h2(v: &impl Hash) -> (u64, u64) {
	let mut a = DefaultHasher::new();
	v.hash(&mut a);
	let mut b = DefaultHasher::new();
	0x9e3779b97f4a7c15u64.hash(&mut b);
	v.hash(&mut b);
	(a.finish(), b.finish())
}

fn snapshot(exec: &Exec, targets: &[Target<'_>], arena: &Arena, cfg: &Cfg) -> Snap {
	let g = exec.lock();
	let mut parts: Vec<u64> = vec![];
	let mut enabled = vec![];
	let mut all_finished = true;
	let mut any_blocked = false;
	let mut retry_exceeded = false;
	let mut unfinished = vec![];
	let mut outcome: Vec<u64> = vec![];
	for t in 0..g.nthreads {
		let th = &g.threads[t];
		parts.push(match th.status {
			Status::Finished => 3,
			Status::Parked => 2,
			_ => 1,
		});
		parts.push(th.pc as u64);
		parts.push(if th.use_local { th.local } else { th.obs });
		outcome.push(th.obs);
		match &th.pending {
			Some(Pending::Raw(op)) => {
				parts.push(1 << 32 | (op.lock as u64) << 8 | (op.act as u64) << 4 | op.mode as u64);
			}
			Some(Pending::Yield(l)) => parts.push(2 << 32 | *l as u64),
			Some(Pending::Start) => parts.push(3 << 32),
			Some(Pending::Menu(a)) => {
				parts.push(4 << 32 | a.len() as u64);
			}
			None => parts.push(0),
		}
		if th.status != Status::Finished {
			all_finished = false;
			unfinished.push(format!("T{} pc={} pending={:?} in `{}` holding {:?}", t, th.pc, th.pending, th.ctx.what, g.held(t)));
		} else if let Some(o) = &th.outcome {
			let mut s = DefaultHasher::new();
			o.hash(&mut s);
			parts.push(s.finish());
		}
		if g.thread_enabled(t) {
			match &th.pending {
				Some(Pending::Menu(a)) => {
					for x in a {
						enabled.push((t as u8, *x));
					}
				}
				_ => enabled.push((t as u8, 0)),
			}
		} else if th.status == Status::Parked {
			any_blocked = true;
		}
		if th.ctx.retrying && th.ctx.blocking_seq.len() as u32 > cfg.retry_rounds + 1 {
			retry_exceeded = true;
		}
	}
	parts.push(g.table_fingerprint());
	for s in &g.shadow {
		parts.push(*s);
	}
	// poison flags: arena poisonables and poisonable targets
	let mut pf = 0u64;
	for p in &arena.pm {
		pf = pf << 1 | p.is_poisoned() as u64;
	}
	for p in &arena.pr {
		pf = pf << 1 | p.is_poisoned() as u64;
	}
	pf = pf << 1 | arena.ppm.is_poisoned() as u64;
	pf = pf << 1 | arena.ppr.is_poisoned() as u64;
	for t in targets {
		if let Some(b) = t.coll.is_poisoned() {
			pf = pf << 1 | b as u64;
		}
	}
	parts.push(pf);
	if cfg.max_preemptions.is_some() {
		parts.push(g.preemptions as u64);
		parts.push(g.last.map(|l| l as u64 + 1).unwrap_or(0));
	}
	let last_enabled = g.last.map(|l| g.thread_enabled(l)).unwrap_or(false);
	outcome.push(pf);
	for s in &g.shadow {
		outcome.push(*s);
	}
	Snap {
		key: h2(&parts),
		enabled,
		all_finished,
		any_blocked,
		violations: g.violations.clone(),
		machinery: g.machinery_error.clone(),
		retry_exceeded,
		last_enabled,
		last: g.last,
		preemptions: g.preemptions,
		outcome_hash: h2(&outcome).0,
		unfinished,
	}
}

/// Order the enabled choices canonically: the last-run thread first (continuing costs no preemption).
fn order(enabled: &mut Vec<(u8, u16)>, last: Option<usize>) {
	if let Some(l) = last {
		enabled.sort_by_key(|(t, a)| (if *t as usize == l { 0 } else { 1 }, *t, *a));
	}
}

pub type StateHook<'h> = dyn FnMut(&Exec, &[Target<'_>]) -> Vec<Violation> + 'h;

/// Run one execution: replay `prefix`, then extend depth-first, calling back for every newly reached state.
/// Returns new work items (alternative prefixes).
#[allow(clippy::too_many_arguments)]
fn run_one(
	prog: &Program, cfg: &Cfg, prefix: &[(u8, u16)], seen: &mut HashSet<(u64, u64)>, outcomes: &mut HashSet<u64>, stats: &mut Stats, found: &mut Vec<Found>, work: &mut Vec<Vec<(u8, u16)>>,
	sample: &mut Vec<(u8, u16)>, hook: &mut Option<&mut StateHook<'_>>,
) -> Result<(), String> {
	let arena = Arena::new();
	let store = Store::new();
	let world = World::new(&arena, &store);
	let mut targets: Vec<Target<'_>> = vec![];
	for s in &prog.specs {
		match world.build(s) {
			Some(t) => targets.push(t),
			None => return Err(format!("target {:?} rejected by its checked constructor", s)),
		}
	}
	let n = prog.threads.len();
	let exec = Exec::new(cfg.gran, prog.policy, n, world.is_rw.borrow().clone());
	exec.lock().lock_unit = world.unit.borrow().clone();
	stats.executions += 1;
	let mut result: Result<(), String> = Ok(());
	let targets_ref = &targets;
	std::thread::scope(|s| {
		for tid in 0..n {
			let e = exec.clone();
			let steps = &prog.threads[tid];
			std::thread::Builder::new()
				.stack_size(256 * 1024)
				.spawn_scoped(s, move || {
					rt::run_logical(e, tid, || interp::run_thread(tid, steps, targets_ref));
				})
				.expect("spawn");
		}
		let r = (|| -> Result<(), String> {
			if !exec.wait_quiescent() {
				return Err("watchdog: threads did not reach their start points".into());
			}
			// replay
			for (i, (t, a)) in prefix.iter().enumerate() {
				let en = {
					let g = exec.lock();
					g.thread_enabled(*t as usize)
				};
				if !en {
					return Err(format!("replay divergence at step {} of {:?}: T{} not enabled", i, prefix, t));
				}
				if !exec.step(*t as usize, *a) {
					return Err(format!("watchdog during replay at step {}", i));
				}
				if i + 1 == prefix.len() {
					stats.transitions += 1;
				} else {
					stats.replay_steps += 1;
				}
			}
			if !prefix.is_empty() {
				stats.replays += 1;
			}
			let mut path: Vec<(u8, u16)> = prefix.to_vec();
			let mut completing = false;
			let mut completion_points = 0u32;
			loop {
				let mut snap = snapshot(&exec, targets_ref, &arena, cfg);
				if let Some(m) = snap.machinery {
					return Err(m);
				}
				if let Some(h) = hook.as_mut() {
					let extra = h(&exec, targets_ref);
					snap.violations.extend(extra);
				}
				if !snap.violations.is_empty() {
					for v in snap.violations {
						if !found.iter().any(|f| f.violation.key == v.key && f.violation.prop == v.prop) {
							found.push(Found { violation: v, schedule: path.clone() });
						}
					}
					return Ok(());
				}
				if !completing {
					if !seen.insert(snap.key) {
						return Ok(());
					}
					stats.states += 1;
					if stats.states as usize > cfg.state_cap {
						stats.cap_hit = true;
						return Ok(());
					}
					if snap.any_blocked {
						stats.blocked_states += 1;
					}
				}
				stats.max_depth = stats.max_depth.max(path.len());
				if snap.enabled.is_empty() {
					if !snap.all_finished {
						found.push(Found {
							violation: Violation { prop: "C01", key: format!("deadlock|{}", prog.name), detail: format!("no thread is enabled but some are unfinished: {}", snap.unfinished.join("; ")) },
							schedule: path.clone(),
						});
					} else {
						stats.terminal += 1;
						if outcomes.insert(snap.outcome_hash) {
							stats.distinct_outcomes += 1;
						}
						if sample.is_empty() || path.len() > sample.len() {
							*sample = path.clone();
						}
					}
					return Ok(());
				}
				order(&mut snap.enabled, snap.last);
				if snap.retry_exceeded && !completing {
					completing = true;
					stats.env_retry_cut += 1;
				}
				if completing {
					// run-to-block: keep running the last thread while it is enabled, else lowest id
					completion_points += 1;
					if completion_points > cfg.horizon {
						found.push(Found {
							violation: Violation { prop: "C09", key: format!("livelock|{}", prog.name), detail: format!("run-to-block completion exceeded {} points: {}", cfg.horizon, snap.unfinished.join("; ")) },
							schedule: path.clone(),
						});
						return Ok(());
					}
					let c = snap.enabled[0];
					if !exec.step(c.0 as usize, c.1) {
						return Err("watchdog during completion".into());
					}
					path.push(c);
					stats.transitions += 1;
					if completion_points == 1 {
						stats.completions += 1;
					}
					continue;
				}
				// alternatives
				for (i, c) in snap.enabled.iter().enumerate().skip(1) {
					let _ = i;
					if let Some(b) = cfg.max_preemptions {
						let cost = if snap.last_enabled && snap.last != Some(c.0 as usize) { 1 } else { 0 };
						if snap.preemptions + cost > b {
							continue;
						}
					}
					let mut p = path.clone();
					p.push(*c);
					work.push(p);
				}
				let c = snap.enabled[0];
				if let Some(b) = cfg.max_preemptions {
					let cost = if snap.last_enabled && snap.last != Some(c.0 as usize) { 1 } else { 0 };
					if snap.preemptions + cost > b {
						return Ok(());
					}
				}
				if !exec.step(c.0 as usize, c.1) {
					return Err(format!("watchdog: T{} did not reach a point (possible livelock inside the library) after {:?}", c.0, path));
				}
				stats.transitions += 1;
				path.push(c);
			}
		})();
		result = r;
		exec.abort();
	});
	drop(targets);
	result
}

pub fn explore(prog: &Program, cfg: &Cfg) -> Outcome {
	explore_with(prog, cfg, None)
}

pub fn explore_with(prog: &Program, cfg: &Cfg, mut hook: Option<&mut StateHook<'_>>) -> Outcome {
	let mut seen = HashSet::new();
	let mut outcomes = HashSet::new();
	let mut stats = Stats::default();
	let mut found = vec![];
	let mut work: Vec<Vec<(u8, u16)>> = vec![vec![]];
	let mut sample = vec![];
	let mut machinery = None;
	while let Some(prefix) = work.pop() {
		if let Err(e) = run_one(prog, cfg, &prefix, &mut seen, &mut outcomes, &mut stats, &mut found, &mut work, &mut sample, &mut hook) {
			machinery = Some(e);
			break;
		}
		if (cfg.stop_at_first && !found.is_empty()) || stats.cap_hit {
			break;
		}
	}
	Outcome { stats, found, machinery, sample_schedule: sample }
}

/// Replay a single schedule with tracing on; returns the trace lines and violations.
pub fn replay(prog: &Program, cfg: &Cfg, schedule: &[(u8, u16)]) -> Result<(Vec<String>, Vec<Violation>), String> {
	let arena = Arena::new();
	let store = Store::new();
	let world = World::new(&arena, &store);
	let mut targets: Vec<Target<'_>> = vec![];
	for s in &prog.specs {
		targets.push(world.build(s).ok_or_else(|| format!("target {:?} rejected", s))?);
	}
	let n = prog.threads.len();
	let exec: Arc<Exec> = Exec::new(cfg.gran, prog.policy, n, world.is_rw.borrow().clone());
	exec.lock().keep_trace = true;
	let targets_ref = &targets;
	let mut out = Ok(());
	std::thread::scope(|s| {
		for tid in 0..n {
			let e = exec.clone();
			let steps = &prog.threads[tid];
			s.spawn(move || rt::run_logical(e, tid, || interp::run_thread(tid, steps, targets_ref)));
		}
		out = (|| {
			if !exec.wait_quiescent() {
				return Err("watchdog at start".to_string());
			}
			for (i, (t, a)) in schedule.iter().enumerate() {
				if !exec.lock().thread_enabled(*t as usize) {
					return Err(format!("schedule step {}: T{} not enabled", i, t));
				}
				if !exec.step(*t as usize, *a) {
					return Err(format!("watchdog at step {}", i));
				}
			}
			Ok(())
		})();
		exec.abort();
	});
	out?;
	let snap = snapshot(&exec, targets_ref, &arena, cfg);
	let g = exec.lock();
	let mut lines = vec![];
	for e in &g.trace {
		lines.push(match &e.what {
			rt::EvKind::Raw { op, ok, note } => format!("T{} call#{} {} -> {}{}", e.tid, e.call, op.short(), ok, if note.is_empty() { String::new() } else { format!(" [{}]", note) }),
			rt::EvKind::Fault { op } => format!("T{} call#{} FAULT instead of {}", e.tid, e.call, op.short()),
			rt::EvKind::Env { lock, note } => format!("env: L{} {}", lock, note),
			rt::EvKind::Note(s) => format!("T{} note: {}", e.tid, s),
		});
	}
	if snap.enabled.is_empty() && !snap.all_finished {
		lines.push(format!("DEADLOCK: {}", snap.unfinished.join("; ")));
	}
	let _ = (Act::Lock, Mode::Excl);
	Ok((lines, g.violations.clone()))
}
