//! Explicit-state search over the interleavings of one program. A state is reached by
//! replaying a schedule prefix on freshly built real happylock objects; states are
//! de-duplicated on a canonical fingerprint (DESIGN.md §3.6).

use std::collections::hash_map::DefaultHasher;
use std::collections::HashSet;
use std::hash::{Hash, Hasher};
use std::sync::Arc;

use crate::interp::{self, Program};
use crate::rt::{self, Decision, Exec, Gran, Inner, Pending, Pool, Status, Violation};
use crate::spec::{Target, World};
use crate::world::{Arena, Store};

#[derive(Clone, Debug, serde::Serialize, serde::Deserialize)]
pub struct Cfg {
	/// None = all interleavings
	pub max_preemptions: Option<u32>,
	/// a retrying acquisition may start over at most this many times under adversarial scheduling
	pub retry_rounds: u32,
	/// horizon (points) for the run-to-block completion
	pub horizon: u32,
	pub state_cap: usize,
	pub gran: Gran,
	/// stop at the first violation of this program
	pub stop_at_first: bool,
	/// breadth-first (every execution takes exactly one new transition): depth caps are then exact
	#[serde(default)]
	pub bfs: bool,
	/// do not expand states deeper than this (0 = no cap)
	#[serde(default)]
	pub depth_cap: usize,
	/// menu searches contain legitimately stuck threads (leaked guards): do not report deadlocks
	#[serde(default)]
	pub no_deadlock_report: bool,
	/// violations of these properties end the path; others are recorded and exploration continues (empty = all end the path)
	#[serde(default)]
	pub verdict_props: Vec<String>,
	/// violations of these properties also end the path although they are not this check's verdict (they
	/// corrupt the hold state, so exploring beyond them is meaningless and may not terminate)
	#[serde(default)]
	pub cut_props: Vec<String>,
	/// add a scheduling point after the effect of every raw release
	#[serde(default)]
	pub post_release_points: bool,
}
impl Default for Cfg {
	fn default() -> Self {
		Cfg { max_preemptions: None, retry_rounds: 2, horizon: 400, state_cap: 5_000_000, gran: Gran::RawOp, stop_at_first: true, bfs: false, depth_cap: 0, no_deadlock_report: false, verdict_props: vec![], cut_props: vec![], post_release_points: false }
	}
}

#[derive(Clone, Debug, Default)]
pub struct Stats {
	pub states: u64,
	pub transitions: u64,
	pub replays: u64,
	pub replay_steps: u64,
	pub executions: u64,
	pub terminal: u64,
	pub blocked_states: u64,
	pub completions: u64,
	pub max_depth: usize,
	pub distinct_outcomes: usize,
	pub env_retry_cut: u64,
	pub cap_hit: bool,
	pub depth_cap_hits: u64,
}
impl Stats {
	pub fn add(&mut self, o: &Stats) {
		self.states += o.states;
		self.transitions += o.transitions;
		self.replays += o.replays;
		self.replay_steps += o.replay_steps;
		self.executions += o.executions;
		self.terminal += o.terminal;
		self.blocked_states += o.blocked_states;
		self.completions += o.completions;
		self.max_depth = self.max_depth.max(o.max_depth);
		self.distinct_outcomes += o.distinct_outcomes;
		self.env_retry_cut += o.env_retry_cut;
		self.cap_hit |= o.cap_hit;
		self.depth_cap_hits += o.depth_cap_hits;
	}
}

#[derive(Clone, Debug)]
pub struct Found {
	pub violation: Violation,
	pub schedule: Vec<(u8, u16)>,
}

pub struct Outcome {
	pub stats: Stats,
	pub found: Vec<Found>,
	pub machinery: Option<String>,
	pub sample_schedule: Vec<(u8, u16)>,
}

struct Snap {
	key: (u64, u64),
	enabled: Vec<(u8, u16)>,
	all_finished: bool,
	any_blocked: bool,
	violations: Vec<Violation>,
	machinery: Option<String>,
	retry_exceeded: bool,
	last_enabled: bool,
	last: Option<usize>,
	preemptions: u32,
	outcome_hash: u64,
	unfinished: Vec<String>,
	table_empty: bool,
	table: String,
}

fn h2(v: &impl Hash) -> (u64, u64) {
	let mut a = DefaultHasher::new();
	v.hash(&mut a);
	let mut b = DefaultHasher::new();
	0x9e3779b97f4a7c15u64.hash(&mut b);
	v.hash(&mut b);
	(a.finish(), b.finish())
}

/// The real poison flags of every Poisonable in the world, as a bit string.
pub fn poison_flags(targets: &[Target<'_>], arena: &Arena) -> u64 {
	let mut pf = 1u64;
	for p in &arena.pm {
		pf = pf << 1 | p.is_poisoned() as u64;
	}
	for p in &arena.pr {
		pf = pf << 1 | p.is_poisoned() as u64;
	}
	pf = pf << 1 | arena.ppm.is_poisoned() as u64;
	pf = pf << 1 | arena.ppr.is_poisoned() as u64;
	for t in targets {
		if let Some(b) = t.coll.is_poisoned() {
			pf = pf << 1 | b as u64;
		}
	}
	pf
}

/// The flags one target can reach: its own, and those of the arena Poisonables among its leaves.
pub fn poison_flags_of(t: &Target<'_>, arena: &Arena) -> u64 {
	use crate::world::{OW0, PM0, PPM_LEAF, PPR_LEAF, PR0};
	let mut pf = 1u64;
	for l in &t.leaves {
		let l = *l;
		if (PM0..PR0).contains(&l) {
			pf = pf << 2 | 2 | arena.pm[(l - PM0) as usize].is_poisoned() as u64;
		} else if (PR0..OW0).contains(&l) {
			pf = pf << 2 | 2 | arena.pr[(l - PR0) as usize].is_poisoned() as u64;
		} else if l == PPM_LEAF {
			pf = pf << 2 | 2 | arena.ppm.is_poisoned() as u64;
		} else if l == PPR_LEAF {
			pf = pf << 2 | 2 | arena.ppr.is_poisoned() as u64;
		} else {
			pf <<= 1;
		}
	}
	if let Some(b) = t.coll.is_poisoned() {
		pf = pf << 2 | 2 | b as u64;
	}
	pf
}

/// The threads read these flags between scheduling points; see `Inner::hidden_probe`.
pub fn install_hidden_probe(exec: &Exec, targets: &[Target<'_>], arena: &Arena) {
	struct P<'a>(&'a [Target<'a>], &'a Arena);
	unsafe impl Send for P<'_> {}
	let p = P(targets, arena);
	exec.set_hidden_probe(Box::new(move |t| {
		let q = &p;
		match t {
			None => poison_flags(q.0, q.1),
			Some(t) => poison_flags_of(&q.0[t], q.1),
		}
	}));
}

/// Longest execution (in scheduling points) a fixed program may have before it counts as a livelock.
const MAX_PATH: usize = 1500;

fn snapshot(g: &Inner, targets: &[Target<'_>], arena: &Arena, cfg: &Cfg) -> Snap {
	let mut parts: Vec<u64> = vec![];
	let mut enabled = vec![];
	let mut all_finished = true;
	let mut any_blocked = false;
	let mut retry_exceeded = false;
	let mut unfinished = vec![];
	let mut outcome: Vec<u64> = vec![];
	for t in 0..g.nthreads {
		let th = &g.threads[t];
		parts.push(match th.status {
			Status::Finished => 3,
			Status::Parked => 2,
			_ => 1,
		});
		parts.push(th.pc as u64);
		// menu threads: canonical local state (which names the action in progress, if any), plus - while inside an
		// action - the digest of the hidden flags of the action's target that the library last ran under. (The complete observation hash would
		// make retry loops acyclic: a retrying acquisition that is woken and fails again has observed more, and has
		// the same future.)
		if th.use_local {
			parts.push(th.local);
			if !matches!(th.pending, Some(Pending::Menu(_))) {
				parts.push(th.watch_seen);
			}
		} else {
			parts.push(th.obs);
		}
		outcome.push(th.obs);
		match &th.pending {
			Some(Pending::Raw(op)) => {
				parts.push(1 << 32 | (op.lock as u64) << 8 | (op.act as u64) << 4 | op.mode as u64);
			}
			Some(Pending::Yield(l)) => parts.push(2 << 32 | *l as u64),
			Some(Pending::Start) => parts.push(3 << 32),
			Some(Pending::Menu(a)) => {
				parts.push(4 << 32 | a.len() as u64);
				for x in a {
					parts.push(*x as u64);
				}
			}
			None => parts.push(0),
		}
		if th.status != Status::Finished {
			all_finished = false;
			unfinished.push(format!("T{} pc={} pending={:?} in `{}` holding {:?}", t, th.pc, th.pending, th.ctx.what, g.held(t)));
		} else if let Some(o) = &th.outcome {
			let mut s = DefaultHasher::new();
			o.hash(&mut s);
			parts.push(s.finish());
		}
		if g.thread_enabled(t) {
			match &th.pending {
				Some(Pending::Menu(a)) => {
					for x in a {
						enabled.push((t as u8, *x));
					}
				}
				_ => enabled.push((t as u8, 0)),
			}
		} else if th.status == Status::Parked {
			any_blocked = true;
		}
		if th.ctx.retrying && th.ctx.blocking_seq.len() as u32 > cfg.retry_rounds + 1 {
			retry_exceeded = true;
		}
	}
	parts.push(g.table_fingerprint());
	for s in &g.shadow {
		parts.push(*s);
	}
	// poison flags: arena poisonables and poisonable targets
	let pf = poison_flags(targets, arena);
	parts.push(pf);
	for l in &g.leaked {
		parts.push(0x1ea0000 | *l as u64);
	}
	for (k, v) in &g.pmodel {
		parts.push(0x9000000 | (*k as u64) << 8 | *v as u64);
	}
	if cfg.max_preemptions.is_some() {
		parts.push(g.preemptions as u64);
		parts.push(g.last.map(|l| l as u64 + 1).unwrap_or(0));
	}
	let last_enabled = g.last.map(|l| g.thread_enabled(l)).unwrap_or(false);
	outcome.push(pf);
	for s in &g.shadow {
		outcome.push(*s);
	}
	Snap {
		key: h2(&parts),
		enabled,
		all_finished,
		any_blocked,
		violations: g.violations.clone(),
		machinery: g.machinery_error.clone(),
		retry_exceeded,
		last_enabled,
		last: g.last,
		preemptions: g.preemptions,
		outcome_hash: h2(&outcome).0,
		unfinished,
		table_empty: g.locks.iter().all(|l| l.is_free()),
		table: g.table_string(),
	}
}

/// Order the enabled choices canonically: the last-run thread first (continuing costs no preemption).
fn order(enabled: &mut Vec<(u8, u16)>, last: Option<usize>) {
	if let Some(l) = last {
		enabled.sort_by_key(|(t, a)| (if *t as usize == l { 0 } else { 1 }, *t, *a));
	}
}

/// Extra invariant evaluated in every newly reached state.
pub type StateHook = dyn Fn(&Inner, &[Target<'_>]) -> Vec<Violation> + Sync;

/// Search state of one program.
pub struct Search<'p> {
	pub prog: &'p Program,
	pub cfg: &'p Cfg,
	pub seen: HashSet<(u64, u64)>,
	pub outcomes: HashSet<u64>,
	pub stats: Stats,
	pub found: Vec<Found>,
	pub work: std::collections::VecDeque<Vec<(u8, u16)>>,
	pub sample: Vec<(u8, u16)>,
	pub hook: Option<&'p StateHook>,
	pub error: Option<String>,
	// per-execution
	prefix: Vec<(u8, u16)>,
	pos: usize,
	path: Vec<(u8, u16)>,
	completing: bool,
	completion_points: u32,
}

impl<'p> Search<'p> {
	pub fn new(prog: &'p Program, cfg: &'p Cfg, hook: Option<&'p StateHook>) -> Self {
		Search { prog, cfg, seen: HashSet::new(), outcomes: HashSet::new(), stats: Stats::default(), found: vec![], work: std::collections::VecDeque::from(vec![vec![]]), sample: vec![], hook, error: None, prefix: vec![], pos: 0, path: vec![], completing: false, completion_points: 0 }
	}

	/// The scheduling decision at a quiescent point of the current execution.
	fn decide(&mut self, g: &Inner, targets: &[Target<'_>], arena: &Arena) -> Decision {
		let cfg = self.cfg;
		// replaying the prefix
		if self.pos < self.prefix.len() {
			let (t, a) = self.prefix[self.pos];
			if !g.thread_enabled(t as usize) {
				self.error = Some(format!("replay divergence at step {} of {:?}: T{} not enabled", self.pos, self.prefix, t));
				return Decision::Stop;
			}
			self.pos += 1;
			if self.pos == self.prefix.len() {
				self.stats.transitions += 1;
			} else {
				self.stats.replay_steps += 1;
			}
			return Decision::Run(t as usize, a);
		}
		let mut snap = snapshot(g, targets, arena, cfg);
		if let Some(m) = snap.machinery {
			self.error = Some(m);
			return Decision::Stop;
		}
		if let Some(h) = self.hook {
			snap.violations.extend(h(g, targets));
		}
		if !snap.violations.is_empty() {
			let mut cut = false;
			for v in snap.violations {
				if cfg.verdict_props.is_empty() || cfg.verdict_props.iter().any(|p| p == v.prop) || cfg.cut_props.iter().any(|p| p == v.prop) {
					cut = true;
				}
				if !self.found.iter().any(|f| f.violation.key == v.key && f.violation.prop == v.prop) {
					self.found.push(Found { violation: v, schedule: self.path.clone() });
				}
			}
			if cut {
				return Decision::Stop;
			}
		}
		if !self.completing {
			if !self.seen.insert(snap.key) {
				return Decision::Stop;
			}
			self.stats.states += 1;
			if self.stats.states as usize > cfg.state_cap {
				self.stats.cap_hit = true;
				return Decision::Stop;
			}
			if snap.any_blocked {
				self.stats.blocked_states += 1;
			}
		}
		self.stats.max_depth = self.stats.max_depth.max(self.path.len());
		if snap.enabled.is_empty() {
			if !snap.all_finished && cfg.no_deadlock_report {
				self.stats.terminal += 1;
			} else if !snap.all_finished {
				self.found.push(Found {
					violation: Violation { prop: "C01", key: format!("deadlock|{}", self.prog.name), detail: format!("no thread is enabled but some are unfinished: {}", snap.unfinished.join("; ")) },
					schedule: self.path.clone(),
				});
			} else {
				self.stats.terminal += 1;
				if !snap.table_empty && g.leaked.is_empty() {
					self.found.push(Found {
						violation: Violation { prop: "C05", key: format!("locks-held-at-end|{}", self.prog.name), detail: format!("all threads finished and dropped their guards but the owner table is not empty: {}", g.table_string()) },
						schedule: self.path.clone(),
					});
				}
				if self.outcomes.insert(snap.outcome_hash) {
					self.stats.distinct_outcomes += 1;
				}
				if self.sample.is_empty() || self.path.len() > self.sample.len() {
					self.sample = self.path.clone();
				}
			}
			return Decision::Stop;
		}
		order(&mut snap.enabled, snap.last);
		if snap.retry_exceeded && !self.completing {
			self.completing = true;
			self.stats.env_retry_cut += 1;
		}
		if self.completing {
			// run-to-block: keep running the last thread while it is enabled, else lowest id
			self.completion_points += 1;
			if self.completion_points > cfg.horizon {
				self.found.push(Found {
					violation: Violation { prop: "C09", key: format!("livelock|{}", self.prog.name), detail: format!("run-to-block completion exceeded {} points: {}", cfg.horizon, snap.unfinished.join("; ")) },
					schedule: self.path.clone(),
				});
				return Decision::Stop;
			}
			let c = snap.enabled[0];
			self.path.push(c);
			self.stats.transitions += 1;
			if self.completion_points == 1 {
				self.stats.completions += 1;
			}
			return Decision::Run(c.0 as usize, c.1);
		}
		if self.prog.menu.is_empty() && self.path.len() > MAX_PATH {
			// fixed programs terminate; on the unchanged tree the longest path is below 100 points. A path this long
			// means some thread keeps issuing operations without making progress (a spin on a try, for instance)
			self.found.push(Found {
				violation: Violation { prop: "C01", key: format!("livelock|{}", self.prog.name), detail: format!("an execution of a finite program exceeded {} scheduling points: {}", MAX_PATH, snap.unfinished.join("; ")) },
				schedule: self.path.clone(),
			});
			self.work.clear();
			return Decision::Stop;
		}
		if cfg.depth_cap > 0 && self.path.len() >= cfg.depth_cap {
			self.stats.depth_cap_hits += 1;
			return Decision::Stop;
		}
		if cfg.bfs {
			for c in snap.enabled.iter() {
				let mut p = self.path.clone();
				p.push(*c);
				self.work.push_back(p);
			}
			return Decision::Stop;
		}
		// alternatives
		for c in snap.enabled.iter().skip(1) {
			if let Some(b) = cfg.max_preemptions {
				let cost = if snap.last_enabled && snap.last != Some(c.0 as usize) { 1 } else { 0 };
				if snap.preemptions + cost > b {
					continue;
				}
			}
			let mut p = self.path.clone();
			p.push(*c);
			self.work.push_back(p);
		}
		let c = snap.enabled[0];
		if let Some(b) = cfg.max_preemptions {
			let cost = if snap.last_enabled && snap.last != Some(c.0 as usize) { 1 } else { 0 };
			if snap.preemptions + cost > b {
				return Decision::Stop;
			}
		}
		self.stats.transitions += 1;
		self.path.push(c);
		Decision::Run(c.0 as usize, c.1)
	}

	/// Run one execution: replay `prefix`, then extend depth-first.
	fn run_one(&mut self, pool: &mut Pool, prefix: Vec<(u8, u16)>) {
		let prog = self.prog;
		let cfg = self.cfg;
		let store = Store::new();
		let arena = Arena::new_in(&store);
		let world = World::new(arena, &store);
		let mut targets: Vec<Target<'_>> = vec![];
		for s in &prog.specs {
			match world.build(s) {
				Some(mut t) => {
					t.index = targets.len();
					targets.push(t)
				}
				None => {
					if prog.name.starts_with('Z') {
						// family Z lists inputs with a duplicate: rejection by the checked constructor is the expected outcome
						return;
					}
					self.error = Some(format!("target {:?} rejected by its checked constructor", s));
					return;
				}
			}
		}
		let n = prog.threads.len();
		let exec = Exec::new(cfg.gran, prog.policy, n, world.is_rw.borrow().clone());
		exec.lock().lock_unit = world.unit.borrow().clone();
		exec.lock().post_release_points = cfg.post_release_points;
		self.stats.executions += 1;
		if !prefix.is_empty() {
			self.stats.replays += 1;
		}
		self.path = prefix.clone();
		self.prefix = prefix;
		self.pos = 0;
		self.completing = false;
		self.completion_points = 0;
		let targets_ref: &[Target<'_>] = &targets;
		let arena_ref: &Arena = arena;
		{
			let this: &mut Search<'p> = self;
			// Arena/targets are only read by the decider; raw pointers make the closure Send.
			struct Ptrs<'a, 'p>(*mut Search<'p>, &'a [Target<'a>], &'a Arena);
			unsafe impl Send for Ptrs<'_, '_> {}
			let ptrs = Ptrs(this as *mut _, targets_ref, arena_ref);
			install_hidden_probe(&exec, targets_ref, arena_ref);
		exec.set_decider(Box::new(move |g: &mut Inner| {
				let p = &ptrs;
				let s: &mut Search<'_> = unsafe { &mut *p.0 };
				s.decide(g, p.1, p.2)
			}));
		}
		let mut jobs: Vec<Box<dyn FnOnce() + Send + '_>> = vec![];
		for tid in 0..n {
			let e = exec.clone();
			let steps = &prog.threads[tid];
			jobs.push(Box::new(move || {
				if prog.menu.is_empty() {
					rt::run_logical(e, tid, || interp::run_thread(tid, steps, targets_ref));
				} else {
					rt::run_logical(e, tid, || crate::menu::run_thread(tid, &prog.menu[tid], targets_ref, &prog.specs));
				}
			}));
		}
		let ok = pool.run(jobs, std::time::Duration::from_secs(90));
		exec.clear_decider();
		if !ok {
			eprintln!("machinery: watchdog: a logical thread did not come back within 90 s (possible livelock inside the library) in program {} after schedule {:?}", prog.describe(), self.path);
			std::process::exit(3);
		}
		if let Some(m) = exec.lock().machinery_error.clone() {
			self.error.get_or_insert(m);
		}
		drop(targets);
	}

	pub fn run(&mut self, pool: &mut Pool) {
		while let Some(prefix) = if self.cfg.bfs { self.work.pop_front() } else { self.work.pop_back() } {
			self.run_one(pool, prefix);
			if self.error.is_some() {
				break;
			}
			let verdict_found = self.found.iter().any(|f| self.cfg.verdict_props.is_empty() || self.cfg.verdict_props.iter().any(|p| p == f.violation.prop));
			if (self.cfg.stop_at_first && verdict_found) || self.stats.cap_hit {
				break;
			}
		}
	}
}

thread_local! {
	static POOL: std::cell::RefCell<Pool> = std::cell::RefCell::new(Pool::new());
}

pub fn explore(prog: &Program, cfg: &Cfg) -> Outcome {
	explore_with(prog, cfg, None)
}

pub fn explore_with(prog: &Program, cfg: &Cfg, hook: Option<&StateHook>) -> Outcome {
	let mut s = Search::new(prog, cfg, hook);
	POOL.with(|p| s.run(&mut p.borrow_mut()));
	Outcome { stats: s.stats, found: s.found, machinery: s.error, sample_schedule: s.sample }
}

/// Replay a single schedule with tracing on; returns the trace lines and violations.
pub fn replay(prog: &Program, cfg: &Cfg, schedule: &[(u8, u16)]) -> Result<(Vec<String>, Vec<Violation>), String> {
	let store = Store::new();
	let arena = Arena::new_in(&store);
	let world = World::new(arena, &store);
	let mut targets: Vec<Target<'_>> = vec![];
	for s in &prog.specs {
		let mut t = world.build(s).ok_or_else(|| format!("target {:?} rejected", s))?;
		t.index = targets.len();
		targets.push(t);
	}
	let n = prog.threads.len();
	let exec: Arc<Exec> = Exec::new(cfg.gran, prog.policy, n, world.is_rw.borrow().clone());
	exec.lock().lock_unit = world.unit.borrow().clone();
	exec.lock().post_release_points = cfg.post_release_points;
	exec.lock().keep_trace = true;
	let targets_ref: &[Target<'_>] = &targets;
	let arena_ref: &Arena = arena;
	let mut pos = 0usize;
	let mut err: Option<String> = None;
	let mut final_lines: Vec<String> = vec![];
	{
		struct Ptrs<'a>(*mut usize, *mut Option<String>, *mut Vec<String>, &'a [Target<'a>], &'a Arena);
		unsafe impl Send for Ptrs<'_> {}
		let ptrs = Ptrs(&mut pos, &mut err, &mut final_lines, targets_ref, arena_ref);
		let sched = schedule.to_vec();
		let cfg2 = cfg.clone();
		install_hidden_probe(&exec, targets_ref, arena_ref);
		exec.set_decider(Box::new(move |g: &mut Inner| {
			let p = &ptrs;
			let pos: &mut usize = unsafe { &mut *p.0 };
			if *pos < sched.len() {
				let (t, a) = sched[*pos];
				if !g.thread_enabled(t as usize) {
					unsafe { *p.1 = Some(format!("schedule step {}: T{} not enabled", *pos, t)) };
					return Decision::Stop;
				}
				*pos += 1;
				return Decision::Run(t as usize, a);
			}
			let snap = snapshot(g, p.3, p.4, &cfg2);
			if snap.enabled.is_empty() && !snap.all_finished {
				unsafe { (*p.2).push(format!("DEADLOCK: {}", snap.unfinished.join("; "))) };
			} else if snap.all_finished {
				unsafe { (*p.2).push("all threads finished".to_string()) };
			}
			Decision::Stop
		}));
	}
	let mut jobs: Vec<Box<dyn FnOnce() + Send + '_>> = vec![];
	for tid in 0..n {
		let e = exec.clone();
		let steps = &prog.threads[tid];
		jobs.push(Box::new(move || {
			if prog.menu.is_empty() {
				rt::run_logical(e, tid, || interp::run_thread(tid, steps, targets_ref))
			} else {
				rt::run_logical(e, tid, || crate::menu::run_thread(tid, &prog.menu[tid], targets_ref, &prog.specs))
			}
		}));
	}
	let ok = POOL.with(|p| p.borrow_mut().run(jobs, std::time::Duration::from_secs(90)));
	exec.clear_decider();
	if !ok {
		return Err("watchdog".into());
	}
	if let Some(e) = err {
		return Err(e);
	}
	let g = exec.lock();
	let mut lines = vec![];
	for e in &g.trace {
		lines.push(match &e.what {
			rt::EvKind::Raw { op, ok, note } => format!("T{} call#{} {} -> {}{}", e.tid, e.call, op.short(), ok, if note.is_empty() { String::new() } else { format!(" [{}]", note) }),
			rt::EvKind::Fault { op } => format!("T{} call#{} FAULT instead of {}", e.tid, e.call, op.short()),
			rt::EvKind::Env { lock, note } => format!("env: L{} {}", lock, note),
			rt::EvKind::Note(s) => format!("T{} note: {}", e.tid, s),
		});
	}
	lines.extend(final_lines);
	Ok((lines, g.violations.clone()))
}

// ------------------------------------------------------------------------------------------
// Level-synchronous parallel breadth-first search (used for the menu searches, where a single
// program has a large alphabet): every prefix of the frontier is executed on the real code in
// parallel, the coordinator merges the reached states in frontier order (deterministic).
// ------------------------------------------------------------------------------------------

struct ProbeOut {
	snap: Option<Snap>,
	error: Option<String>,
}

fn probe(prog: &Program, cfg: &Cfg, prefix: &[(u8, u16)], hook: Option<&StateHook>) -> ProbeOut {
	let store = Store::new();
	let arena = Arena::new_in(&store);
	let world = World::new(arena, &store);
	let mut targets: Vec<Target<'_>> = vec![];
	for s in &prog.specs {
		match world.build(s) {
			Some(mut t) => {
				t.index = targets.len();
				targets.push(t)
			}
			None => return ProbeOut { snap: None, error: Some(format!("target {:?} rejected by its checked constructor", s)) },
		}
	}
	let n = prog.threads.len();
	let exec = Exec::new(cfg.gran, prog.policy, n, world.is_rw.borrow().clone());
	exec.lock().lock_unit = world.unit.borrow().clone();
	exec.lock().post_release_points = cfg.post_release_points;
	let targets_ref: &[Target<'_>] = &targets;
	let arena_ref: &Arena = arena;
	let mut pos = 0usize;
	let mut out = ProbeOut { snap: None, error: None };
	{
		struct Ptrs<'a>(*mut usize, *mut ProbeOut, &'a [Target<'a>], &'a Arena, &'a [(u8, u16)], &'a Cfg, Option<&'a StateHook>);
		unsafe impl Send for Ptrs<'_> {}
		let ptrs = Ptrs(&mut pos, &mut out, targets_ref, arena_ref, prefix, cfg, hook);
		install_hidden_probe(&exec, targets_ref, arena_ref);
		exec.set_decider(Box::new(move |g: &mut Inner| {
			let p = &ptrs;
			let pos: &mut usize = unsafe { &mut *p.0 };
			let out: &mut ProbeOut = unsafe { &mut *p.1 };
			if *pos < p.4.len() {
				let (t, a) = p.4[*pos];
				if !g.thread_enabled(t as usize) {
					out.error = Some(format!("replay divergence at step {} of {:?}: T{} not enabled", *pos, p.4, t));
					return Decision::Stop;
				}
				*pos += 1;
				return Decision::Run(t as usize, a);
			}
			let mut snap = snapshot(g, p.2, p.3, p.5);
			if let Some(h) = p.6 {
				snap.violations.extend(h(g, p.2));
			}
			if let Some(m) = snap.machinery.clone() {
				out.error = Some(m);
			}
			out.snap = Some(snap);
			Decision::Stop
		}));
	}
	let mut jobs: Vec<Box<dyn FnOnce() + Send + '_>> = vec![];
	for tid in 0..n {
		let e = exec.clone();
		let steps = &prog.threads[tid];
		jobs.push(Box::new(move || {
			if prog.menu.is_empty() {
				rt::run_logical(e, tid, || interp::run_thread(tid, steps, targets_ref))
			} else {
				rt::run_logical(e, tid, || crate::menu::run_thread(tid, &prog.menu[tid], targets_ref, &prog.specs))
			}
		}));
	}
	let ok = POOL.with(|p| p.borrow_mut().run(jobs, std::time::Duration::from_secs(90)));
	exec.clear_decider();
	if !ok {
		eprintln!("machinery: watchdog: a logical thread did not come back within 90 s in program {} after schedule {:?}", prog.describe(), prefix);
		std::process::exit(3);
	}
	drop(targets);
	out
}

pub fn explore_bfs_par(prog: &Program, cfg: &Cfg, hook: Option<&StateHook>) -> Outcome {
	let mut seen: HashSet<(u64, u64)> = HashSet::new();
	let mut outcomes: HashSet<u64> = HashSet::new();
	let mut stats = Stats::default();
	let mut found: Vec<Found> = vec![];
	let mut machinery = None;
	let mut sample = vec![];
	let mut frontier: Vec<Vec<(u8, u16)>> = vec![vec![]];
	let nworkers = crate::conc::workers();
	'levels: while !frontier.is_empty() {
		if std::env::var("HLVERIF_PROGRESS").is_ok() {
			eprintln!("bfs {}: depth {} frontier {} states {}", prog.describe().chars().take(60).collect::<String>(), frontier[0].len(), frontier.len(), stats.states);
		}
		let next_idx = std::sync::atomic::AtomicUsize::new(0);
		let results: std::sync::Mutex<Vec<(usize, ProbeOut)>> = std::sync::Mutex::new(Vec::with_capacity(frontier.len()));
		std::thread::scope(|s| {
			for _ in 0..nworkers.min(frontier.len()) {
				s.spawn(|| {
					let mut local = vec![];
					loop {
						let i = next_idx.fetch_add(1, std::sync::atomic::Ordering::Relaxed);
						if i >= frontier.len() {
							break;
						}
						local.push((i, probe(prog, cfg, &frontier[i], hook)));
					}
					results.lock().unwrap().extend(local);
				});
			}
		});
		let mut results = results.into_inner().unwrap();
		results.sort_by_key(|r| r.0);
		let mut next = vec![];
		for (i, r) in results {
			let prefix = &frontier[i];
			stats.executions += 1;
			if !prefix.is_empty() {
				stats.transitions += 1;
				stats.replays += 1;
				stats.replay_steps += prefix.len() as u64 - 1;
			}
			if let Some(e) = r.error {
				machinery = Some(e);
				break 'levels;
			}
			let Some(snap) = r.snap else { continue };
			let mut cut = false;
			for v in snap.violations {
				if cfg.verdict_props.is_empty() || cfg.verdict_props.iter().any(|p| p == v.prop) || cfg.cut_props.iter().any(|p| p == v.prop) {
					cut = true;
				}
				if !found.iter().any(|f| f.violation.key == v.key && f.violation.prop == v.prop) {
					found.push(Found { violation: v, schedule: prefix.clone() });
				}
			}
			if cut {
				continue;
			}
			if !seen.insert(snap.key) {
				continue;
			}
			stats.states += 1;
			stats.max_depth = stats.max_depth.max(prefix.len());
			if snap.any_blocked {
				stats.blocked_states += 1;
			}
			if stats.states as usize > cfg.state_cap {
				stats.cap_hit = true;
				break 'levels;
			}
			if snap.enabled.is_empty() {
				if !snap.all_finished && !cfg.no_deadlock_report {
					found.push(Found { violation: Violation { prop: "C01", key: format!("deadlock|{}", prog.name), detail: format!("no thread is enabled but some are unfinished: {}", snap.unfinished.join("; ")) }, schedule: prefix.clone() });
				} else {
					stats.terminal += 1;
					if !snap.table_empty && snap.all_finished && !cfg.no_deadlock_report {
						found.push(Found { violation: Violation { prop: "C05", key: format!("locks-held-at-end|{}", prog.name), detail: format!("all threads finished but the owner table is not empty: {}", snap.table) }, schedule: prefix.clone() });
					}
					if outcomes.insert(snap.outcome_hash) {
						stats.distinct_outcomes += 1;
					}
				}
				continue;
			}
			if sample.len() < prefix.len() {
				sample = prefix.clone();
			}
			if cfg.depth_cap > 0 && prefix.len() >= cfg.depth_cap {
				stats.depth_cap_hits += 1;
				continue;
			}
			for c in &snap.enabled {
				let mut p = prefix.clone();
				p.push(*c);
				next.push(p);
			}
		}
		frontier = next;
	}
	Outcome { stats, found, machinery, sample_schedule: sample }
}
