//! Runtime descriptions of targets (`Spec`) and their construction over an arena.

use std::cell::{Cell, RefCell};

use happylock::collection::{BoxedLockCollection, OwnedLockCollection, RefLockCollection, RetryingLockCollection};
use happylock::poisonable::Poisonable;

use crate::world::*;
use serde::{Deserialize, Serialize};

#[derive(Clone, Copy, Debug, PartialEq, Eq, Hash, PartialOrd, Ord, Serialize, Deserialize)]
pub enum Kind {
	Boxed,
	Ref,
	Retry,
}
pub const KINDS: [Kind; 3] = [Kind::Boxed, Kind::Ref, Kind::Retry];
impl Kind {
	pub fn short(&self) -> &'static str {
		match self {
			Kind::Boxed => "Boxed",
			Kind::Ref => "Ref",
			Kind::Retry => "Retrying",
		}
	}
}

#[derive(Clone, Debug, PartialEq, Eq, Hash, PartialOrd, Ord, Serialize, Deserialize)]
pub enum Native {
	Arr3(Kind, [usize; 3]),
	TupMR(Kind, usize, usize),
	Slice(Kind, Vec<usize>),
	BoxedTupVecs(Vec<usize>, Vec<usize>),
	BoxedTupRRP(usize, usize, usize),
	/// unchecked-at-runtime constructors over an arena-resident owned unit
	NewOW(Kind, usize),
	OwnedTupMR,
	OwnedArr3,
	OwnedSlice(usize),
	BoxedNewVec(usize),
	RetryNewVec(usize),
	RetryNewArr3,
	OwnedRetryR(usize),
	BoxedOwnedR(usize),
	RetryOwnedR(usize),
	OwnedPoisR,
	/// Poisonable around a fresh owned collection
	PoisOwned(usize),
	/// unchecked-at-runtime constructor over shared owned data `[Vec<RwLock>; 2]` whose listing order is the
	/// REVERSE of its address order (the higher-addressed Vec is listed first)
	VecsNew(Kind),
	/// checked constructor over plain references to the locks of that same shared data
	VecsRefs(Kind),
	/// `new` over a Vec of `&mut` references to fresh locks, listed in DESCENDING address order. 0 = Owned, 1 = Boxed, 2 = Retrying, 3 = Ref
	MutRefs(u8, usize),
	/// a tuple of `n` (1..=7) members: references to fresh locks listed in DESCENDING address order for
	/// 0 = Boxed, 1 = Ref, 2 = Retrying; fresh owned locks for 3 = Owned
	TupN(u8, usize),
	/// Boxed / Ref / Retrying over `(&Owned<Vec<&mut RwLock>>, &RwLock)`: the owned unit lists its `n` members in
	/// DESCENDING address order
	OwnedDescIn(Kind, usize),
	/// `new` over an owned tuple of an empty owned collection (zero-sized) and a fresh lock; `true` = the
	/// zero-sized member is listed first. 0 = Boxed, 1 = Ref, 2 = Retrying, 3 = Owned
	ZstOwned(u8, bool),
	/// like `MutRefs` but built through the conversion traits: via 1 = `From`, 2 = `FromIterator`
	/// (0 = Owned, 1 = Boxed, 2 = Retrying)
	MutRefsVia(u8, usize, u8),
	/// `RefLockCollection::from(&data)` over the shared `[Vec<RwLock>; 2]` listed against its address order
	VecsFromRef,
	/// a Boxed collection that OWNS that shared `[Vec<RwLock>; 2]` data (so it must be the first spec built in its
	/// world; the other `Vecs*` shapes then borrow the data from its `child()`): 0 = `new`, 1 = `From`, 2 = `try_new`
	VecsOwnedBoxed(u8),
	/// checked constructors over references into the world's shared `ZBlock`: `true` = `(&zero_sized, &l0, &l1, &l2)`
	/// (the zero-sized member has the address of `l0`), `false` = `[&l0, &l1, &l2]`
	ZstFront(Kind, bool),
	/// `[&RwLock; 3]` through the `unsafe` `new_unchecked` constructors (duplicate-free by construction here)
	Arr3Unchecked(Kind, [usize; 3]),
	/// the shared descending owned unit itself, and Boxed::new_ref / Ref::new / Retrying::new_ref over a reference to it
	OwnedDescItself(usize),
	OwnedDescRef(Kind, usize),
	/// two distinct zero-sized members (empty owned collections): duplicate-free by identity
	ZstPair(Kind),
	/// zero-sized members around two references r_i, r_j: a duplicate iff i == j
	ZstAround(Kind, usize, usize),
}

#[derive(Clone, Debug, PartialEq, Eq, Hash, PartialOrd, Ord, Serialize, Deserialize)]
pub enum Spec {
	R(usize),
	M(usize),
	PR(usize),
	PM(usize),
	OW(usize),
	PPM,
	PPR,
	Coll(Kind, Vec<Spec>),
	Pois(Box<Spec>),
	Native(Native),
}

impl Spec {
	pub fn sharable(&self) -> bool {
		match self {
			Spec::R(_) | Spec::PR(_) | Spec::OW(_) | Spec::PPR => true,
			Spec::M(_) | Spec::PM(_) | Spec::PPM => false,
			Spec::Coll(_, ms) => ms.iter().all(|m| m.sharable()),
			Spec::Pois(i) => i.sharable(),
			Spec::Native(n) => !matches!(n, Native::TupMR(..) | Native::BoxedTupVecs(..) | Native::OwnedTupMR),
		}
	}
	/// Is the top-level acquisition algorithm the retrying one?
	pub fn retrying(&self) -> bool {
		match self {
			Spec::Coll(Kind::Retry, _) => true,
			Spec::Pois(i) => i.retrying(),
			Spec::Native(n) => matches!(n, Native::Arr3(Kind::Retry, _) | Native::Arr3Unchecked(Kind::Retry, _) | Native::TupMR(Kind::Retry, ..) | Native::Slice(Kind::Retry, _) | Native::NewOW(Kind::Retry, _) | Native::VecsNew(Kind::Retry) | Native::VecsRefs(Kind::Retry) | Native::MutRefs(2, _) | Native::MutRefsVia(2, ..) | Native::TupN(2, _) | Native::ZstOwned(2, _) | Native::OwnedDescIn(Kind::Retry, _) | Native::OwnedDescRef(Kind::Retry, _) | Native::ZstPair(Kind::Retry) | Native::ZstAround(Kind::Retry, ..) | Native::ZstFront(Kind::Retry, _) | Native::RetryNewVec(_) | Native::RetryNewArr3 | Native::RetryOwnedR(_)),
			_ => false,
		}
	}
	pub fn is_single(&self) -> bool {
		matches!(self, Spec::R(_) | Spec::M(_) | Spec::PR(_) | Spec::PM(_) | Spec::PPM | Spec::PPR)
	}
	/// Leaves of arena-based specs in declared order (natives with fresh leaves are resolved at build time).
	pub fn arena_leaves(&self) -> Vec<u32> {
		match self {
			Spec::R(i) => vec![R0 + *i as u32],
			Spec::M(i) => vec![M0 + *i as u32],
			Spec::PR(i) => vec![PR0 + *i as u32],
			Spec::PM(i) => vec![PM0 + *i as u32],
			Spec::OW(i) => ow_leaves(*i),
			Spec::PPM => vec![PPM_LEAF],
			Spec::PPR => vec![PPR_LEAF],
			Spec::Coll(_, ms) => ms.iter().flat_map(|m| m.arena_leaves()).collect(),
			Spec::Pois(i) => i.arena_leaves(),
			Spec::Native(n) => match n {
				Native::Arr3(_, a) | Native::Arr3Unchecked(_, a) => a.iter().map(|i| R0 + *i as u32).collect(),
				Native::TupMR(_, m, r) => vec![M0 + *m as u32, R0 + *r as u32],
				Native::Slice(_, v) => v.iter().map(|i| R0 + *i as u32).collect(),
				Native::BoxedTupVecs(ms, rs) => ms.iter().map(|i| M0 + *i as u32).chain(rs.iter().map(|i| R0 + *i as u32)).collect(),
				Native::BoxedTupRRP(a, b, p) => vec![R0 + *a as u32, R0 + *b as u32, PR0 + *p as u32],
				Native::NewOW(_, i) => ow_leaves(*i),
				Native::ZstAround(_, i, j) => vec![R0 + *i as u32, R0 + *j as u32],
				_ => vec![],
			},
		}
	}
	/// Units as the duplicate check sees them: leaf locks, or an owned collection as one unit.
	/// Encoded as leaf id for leaves and 1000+i for owned unit i.
	pub fn units(&self) -> Vec<u32> {
		match self {
			Spec::OW(i) => vec![1000 + *i as u32],
			Spec::Coll(_, ms) => ms.iter().flat_map(|m| m.units()).collect(),
			Spec::Pois(i) => i.units(),
			Spec::Native(Native::NewOW(_, i)) => vec![1000 + *i as u32],
			_ => self.arena_leaves(),
		}
	}
	pub fn describe(&self) -> String {
		match self {
			Spec::R(i) => format!("r{}", i),
			Spec::M(i) => format!("m{}", i),
			Spec::PR(i) => format!("P(r{})", PR0 as usize + i),
			Spec::PM(i) => format!("P(m{})", PM0 as usize + i),
			Spec::OW(i) => format!("Owned#{}", i),
			Spec::PPM => "P(P(m))".into(),
			Spec::PPR => "P(P(r))".into(),
			Spec::Coll(k, ms) => format!("{}[{}]", k.short(), ms.iter().map(|m| m.describe()).collect::<Vec<_>>().join(",")),
			Spec::Pois(i) => format!("P({})", i.describe()),
			Spec::Native(n) => format!("{:?}", n),
		}
	}
	/// Coarse description used in violation keys: kind structure without leaf numbers.
	pub fn shape_key(&self) -> String {
		match self {
			Spec::R(_) => "RwLock".into(),
			Spec::M(_) => "Mutex".into(),
			Spec::PR(_) => "Poisonable<RwLock>".into(),
			Spec::PM(_) => "Poisonable<Mutex>".into(),
			Spec::OW(_) => "Owned".into(),
			Spec::PPM => "Poisonable<Poisonable<Mutex>>".into(),
			Spec::PPR => "Poisonable<Poisonable<RwLock>>".into(),
			Spec::Coll(k, ms) => {
				let mut inner: Vec<String> = ms.iter().filter(|m| !matches!(m, Spec::R(_) | Spec::M(_))).map(|m| m.shape_key()).collect();
				inner.sort();
				inner.dedup();
				if inner.is_empty() {
					k.short().to_string()
				} else {
					format!("{}<{}>", k.short(), inner.join("+"))
				}
			}
			Spec::Pois(i) => format!("Poisonable<{}>", i.shape_key()),
			Spec::Native(n) => {
				let s = format!("{:?}", n);
				s.split(|c| c == '(' || c == '[').next().unwrap().to_string() + &match n {
					Native::Arr3(k, _) | Native::Arr3Unchecked(k, _) | Native::TupMR(k, ..) | Native::Slice(k, _) | Native::NewOW(k, _) | Native::VecsNew(k) | Native::VecsRefs(k) | Native::ZstPair(k) | Native::ZstAround(k, ..) | Native::OwnedDescIn(k, _) | Native::OwnedDescRef(k, _) | Native::ZstFront(k, _) => format!("<{}>", k.short()),
					_ => String::new(),
				}
			}
		}
	}
}

pub struct Target<'w> {
	pub coll: &'w dyn Coll,
	pub leaves: Vec<u32>,
	pub desc: String,
	pub shape: String,
	pub retrying: bool,
	pub sharable: bool,
	pub spec: Spec,
	/// position in the program's target list (set by the caller of build)
	pub index: usize,
}

pub struct World<'w> {
	pub arena: &'w Arena,
	pub store: &'w Store,
	pub next_id: Cell<u32>,
	pub is_rw: RefCell<Vec<bool>>,
	pub unit: RefCell<Vec<u32>>,
	pub next_unit: Cell<u32>,
	/// shared owned data for the Vecs* native shapes: ([hi_vec, lo_vec], leaf ids of hi, leaf ids of lo)
	pub vecs: RefCell<Option<(&'w [Vec<R>; 2], Vec<u32>, Vec<u32>)>>,
	pub vecs_owner: RefCell<Option<&'w BoxedLockCollection<[Vec<R>; 2]>>>,
	pub zblock: RefCell<Option<(&'w crate::world::ZBlock, Vec<u32>)>>,
	/// shared owned unit whose `n` `&mut` members are listed in descending address order: (unit, leaves as listed)
	pub owned_desc: RefCell<Option<(usize, &'w OwnedLockCollection<Vec<&'w mut R>>, Vec<u32>)>>,
}

impl<'w> World<'w> {
	pub fn new(arena: &'w Arena, store: &'w Store) -> Self {
		World { arena, store, next_id: Cell::new(ARENA_TOTAL), is_rw: RefCell::new(Arena::is_rw_table()), unit: RefCell::new(Arena::unit_table()), next_unit: Cell::new(100), vecs: RefCell::new(None), vecs_owner: RefCell::new(None), zblock: RefCell::new(None), owned_desc: RefCell::new(None) }
	}
	fn fresh(&self, rw: bool, unit: u32) -> u32 {
		let id = self.next_id.get();
		self.next_id.set(id + 1);
		self.is_rw.borrow_mut().push(rw);
		self.unit.borrow_mut().push(unit);
		id
	}
	fn new_unit(&self) -> u32 {
		let u = self.next_unit.get();
		self.next_unit.set(u + 1);
		u
	}

	fn members_s(&self, ms: &[Spec]) -> Option<Vec<AnyS<'w>>> {
		ms.iter().map(|m| self.any_s(m)).collect()
	}
	fn members_x(&self, ms: &[Spec]) -> Option<Vec<AnyX<'w>>> {
		ms.iter().map(|m| self.any_x(m)).collect()
	}

	pub fn coll_s(&self, k: Kind, ms: &[Spec]) -> Option<CollS<'w>> {
		let v = self.members_s(ms)?;
		Some(match k {
			Kind::Boxed => CollS::B(BoxedLockCollection::try_new(v)?),
			Kind::Ref => {
				let v = self.store.stash(v);
				CollS::F(RefLockCollection::try_new(v)?)
			}
			Kind::Retry => CollS::T(RetryingLockCollection::try_new(v)?),
		})
	}
	pub fn coll_x(&self, k: Kind, ms: &[Spec]) -> Option<CollX<'w>> {
		let v = self.members_x(ms)?;
		Some(match k {
			Kind::Boxed => CollX::B(BoxedLockCollection::try_new(v)?),
			Kind::Ref => {
				let v = self.store.stash(v);
				CollX::F(RefLockCollection::try_new(v)?)
			}
			Kind::Retry => CollX::T(RetryingLockCollection::try_new(v)?),
		})
	}

	pub fn any_s(&self, s: &Spec) -> Option<AnyS<'w>> {
		let a = self.arena;
		Some(match s {
			Spec::R(i) => AnyS::R(&a.r[*i]),
			Spec::PR(i) => AnyS::PR(&a.pr[*i]),
			Spec::OW(i) => AnyS::OW(&a.ow[*i]),
			Spec::PPR => AnyS::PPR(&a.ppr),
			Spec::Coll(k, ms) => match self.coll_s(*k, ms)? {
				CollS::B(c) => AnyS::B(self.store.stash(c)),
				CollS::F(c) => AnyS::F(self.store.stash(c)),
				CollS::T(c) => AnyS::T(self.store.stash(c)),
			},
			Spec::Pois(inner) => match &**inner {
				Spec::Coll(k, ms) => match self.coll_s(*k, ms)? {
					CollS::B(c) => AnyS::PB(self.store.stash(Poisonable::new(c))),
					CollS::F(c) => AnyS::PF(self.store.stash(Poisonable::new(c))),
					CollS::T(c) => AnyS::PT(self.store.stash(Poisonable::new(c))),
				},
				_ => panic!("harness: unsupported Pois member {:?}", s),
			},
			_ => panic!("harness: {:?} is not a sharable member", s),
		})
	}
	pub fn any_x(&self, s: &Spec) -> Option<AnyX<'w>> {
		let a = self.arena;
		Some(match s {
			Spec::R(i) => AnyX::R(&a.r[*i]),
			Spec::PR(i) => AnyX::PR(&a.pr[*i]),
			Spec::OW(i) => AnyX::OW(&a.ow[*i]),
			Spec::M(i) => AnyX::M(&a.m[*i]),
			Spec::PM(i) => AnyX::PM(&a.pm[*i]),
			Spec::PPM => AnyX::PPM(&a.ppm),
			Spec::Coll(k, ms) if s.sharable() => match self.coll_s(*k, ms)? {
				CollS::B(c) => AnyX::SB(self.store.stash(c)),
				CollS::F(c) => AnyX::SF(self.store.stash(c)),
				CollS::T(c) => AnyX::ST(self.store.stash(c)),
			},
			Spec::Coll(k, ms) => match self.coll_x(*k, ms)? {
				CollX::B(c) => AnyX::B(self.store.stash(c)),
				CollX::F(c) => AnyX::F(self.store.stash(c)),
				CollX::T(c) => AnyX::T(self.store.stash(c)),
			},
			Spec::Pois(inner) => match &**inner {
				Spec::Coll(k, ms) => match self.coll_x(*k, ms)? {
					CollX::B(c) => AnyX::PB(self.store.stash(Poisonable::new(c))),
					CollX::F(c) => AnyX::PF(self.store.stash(Poisonable::new(c))),
					CollX::T(c) => AnyX::PT(self.store.stash(Poisonable::new(c))),
				},
				_ => panic!("harness: unsupported Pois member {:?}", s),
			},
			_ => panic!("harness: {:?} unsupported as exclusive member", s),
		})
	}

	/// Two separately heap-allocated Vecs of rwlocks, stored as `[hi, lo]`: the Vec whose locks have the higher
	/// addresses is listed FIRST. Leaf ids are assigned in address order (lo's locks get the smaller ids).
	fn shared_vecs(&self) -> (&'w [Vec<R>; 2], Vec<u32>, Vec<u32>) {
		if let Some(v) = self.vecs.borrow().as_ref() {
			return (v.0, v.1.clone(), v.2.clone());
		}
		let (arr, hi_ids, lo_ids) = self.make_vecs();
		let data: &'w [Vec<R>; 2] = self.store.stash(arr);
		*self.vecs.borrow_mut() = Some((data, hi_ids.clone(), lo_ids.clone()));
		(data, hi_ids, lo_ids)
	}
	/// The same data, owned by a Boxed collection built with the given constructor.
	fn shared_vecs_owned(&self, via: u8) -> (&'w BoxedLockCollection<[Vec<R>; 2]>, Vec<u32>, Vec<u32>) {
		if let Some(b) = *self.vecs_owner.borrow() {
			let v = self.vecs.borrow();
			let v = v.as_ref().unwrap();
			return (b, v.1.clone(), v.2.clone());
		}
		assert!(self.vecs.borrow().is_none(), "harness: VecsOwnedBoxed must be the first Vecs* shape built in its world");
		let (arr, hi_ids, lo_ids) = self.make_vecs();
		let b: &'w BoxedLockCollection<[Vec<R>; 2]> = self.store.stash(match via {
			0 => BoxedLockCollection::new(arr),
			1 => BoxedLockCollection::from(arr),
			_ => BoxedLockCollection::try_new(arr).expect("owned data has no duplicates"),
		});
		*self.vecs_owner.borrow_mut() = Some(b);
		*self.vecs.borrow_mut() = Some((b.child(), hi_ids.clone(), lo_ids.clone()));
		(b, hi_ids, lo_ids)
	}
	fn make_vecs(&self) -> ([Vec<R>; 2], Vec<u32>, Vec<u32>) {
		// both Vecs have the same length, so the shape does not depend on which allocation ends up higher
		let va: Vec<R> = vec![R::new(Payload::new(0)), R::new(Payload::new(0))];
		let vb: Vec<R> = vec![R::new(Payload::new(0)), R::new(Payload::new(0))];
		let pa = &va[0] as *const R as usize;
		let pb = &vb[0] as *const R as usize;
		let (mut hi, mut lo) = if pa > pb { (va, vb) } else { (vb, va) };
		let mut lo_ids = vec![];
		let mut hi_ids = vec![];
		for (v, ids) in [(&mut lo, &mut lo_ids), (&mut hi, &mut hi_ids)] {
			for r in v.iter_mut() {
				let id = self.fresh(true, 0);
				r.get_mut().leaf = id;
				crate::rt::register_begin(id);
				unsafe {
					happylock::lockable::RawLock::raw_try_write(&*r);
				}
				crate::rt::register_end();
				ids.push(id);
			}
		}
		([hi, lo], hi_ids, lo_ids)
	}

	/// The world's shared block of a zero-sized member and three locks (leaf ids in address order).
	fn shared_zblock(&self) -> (&'w crate::world::ZBlock, Vec<u32>) {
		if let Some((b, ids)) = self.zblock.borrow().as_ref() {
			return (*b, ids.clone());
		}
		let ids: Vec<u32> = (0..3).map(|_| self.fresh(true, 0)).collect();
		let b: &'w crate::world::ZBlock = self.store.stash(crate::world::ZBlock { z: OwnedLockCollection::new([]), locks: [reg_r(ids[0]), reg_r(ids[1]), reg_r(ids[2])] });
		*self.zblock.borrow_mut() = Some((b, ids.clone()));
		(b, ids)
	}

	/// The world's shared descending owned unit (one size per world).
	fn shared_owned_desc(&self, n: usize) -> (&'w OwnedLockCollection<Vec<&'w mut R>>, Vec<u32>) {
		if let Some((m, ow, leaves)) = self.owned_desc.borrow().as_ref() {
			assert!(*m == n, "harness: one size of shared descending owned unit per world");
			return (*ow, leaves.clone());
		}
		let unit = self.new_unit();
		let (v, ids) = self.fresh_rs(n, unit);
		let boxed: &'w mut Box<[R]> = self.store.stash_mut(v.into_boxed_slice());
		let mut refs: Vec<&'w mut R> = boxed.iter_mut().collect();
		refs.reverse();
		let ow: &'w OwnedLockCollection<Vec<&'w mut R>> = self.store.stash(OwnedLockCollection::new(refs));
		let leaves: Vec<u32> = ids.iter().rev().copied().collect();
		*self.owned_desc.borrow_mut() = Some((n, ow, leaves.clone()));
		(ow, leaves)
	}

	fn fresh_rs(&self, n: usize, unit: u32) -> (Vec<R>, Vec<u32>) {
		let mut v = vec![];
		let mut ids = vec![];
		for _ in 0..n {
			let id = self.fresh(true, unit);
			ids.push(id);
			v.push(reg_r(id));
		}
		(v, ids)
	}

	/// Build a top-level target. `None` = a checked constructor rejected the input.
	pub fn build(&self, s: &Spec) -> Option<Target<'w>> {
		let _scope = crate::halloc::BuildScope::enter();
		let a = self.arena;
		let st = self.store;
		let mut leaves = s.arena_leaves();
		let coll: &'w dyn Coll = match s {
			Spec::R(i) => &a.r[*i],
			Spec::M(i) => &a.m[*i],
			Spec::PR(i) => &a.pr[*i],
			Spec::PM(i) => &a.pm[*i],
			Spec::OW(i) => &a.ow[*i],
			Spec::PPM => &a.ppm,
			Spec::PPR => &a.ppr,
			Spec::Coll(k, ms) => {
				if s.sharable() {
					match self.coll_s(*k, ms)? {
						CollS::B(c) => st.stash(c),
						CollS::F(c) => st.stash(c),
						CollS::T(c) => st.stash(c),
					}
				} else {
					match self.coll_x(*k, ms)? {
						CollX::B(c) => st.stash(c),
						CollX::F(c) => st.stash(c),
						CollX::T(c) => st.stash(c),
					}
				}
			}
			Spec::Pois(inner) => match &**inner {
				Spec::Coll(k, ms) => {
					if inner.sharable() {
						match self.coll_s(*k, ms)? {
							CollS::B(c) => st.stash(Poisonable::new(c)),
							CollS::F(c) => st.stash(Poisonable::new(c)),
							CollS::T(c) => st.stash(Poisonable::new(c)),
						}
					} else {
						match self.coll_x(*k, ms)? {
							CollX::B(c) => st.stash(Poisonable::new(c)),
							CollX::F(c) => st.stash(Poisonable::new(c)),
							CollX::T(c) => st.stash(Poisonable::new(c)),
						}
					}
				}
				_ => panic!("harness: unsupported Pois target {:?}", s),
			},
			Spec::Native(n) => match n {
				Native::Arr3(k, ix) => {
					let arr = [&a.r[ix[0]], &a.r[ix[1]], &a.r[ix[2]]];
					match k {
						Kind::Boxed => st.stash(BoxedLockCollection::try_new(arr)?),
						Kind::Ref => st.stash(RefLockCollection::try_new(st.stash(arr))?),
						Kind::Retry => st.stash(RetryingLockCollection::try_new(arr)?),
					}
				}
				Native::TupMR(k, m, r) => {
					let t = (&a.m[*m], &a.r[*r]);
					match k {
						Kind::Boxed => st.stash(BoxedLockCollection::try_new(t)?),
						Kind::Ref => st.stash(RefLockCollection::try_new(st.stash(t))?),
						Kind::Retry => st.stash(RetryingLockCollection::try_new(t)?),
					}
				}
				Native::Slice(k, ix) => {
					let b: Box<[&R]> = ix.iter().map(|i| &a.r[*i]).collect();
					match k {
						Kind::Boxed => st.stash(BoxedLockCollection::try_new(b)?),
						Kind::Ref => st.stash(RefLockCollection::try_new(st.stash(b))?),
						Kind::Retry => st.stash(RetryingLockCollection::try_new(b)?),
					}
				}
				Native::BoxedTupVecs(ms, rs) => {
					let t: (Vec<&M>, Vec<&R>) = (ms.iter().map(|i| &a.m[*i]).collect(), rs.iter().map(|i| &a.r[*i]).collect());
					st.stash(BoxedLockCollection::try_new(t)?)
				}
				Native::BoxedTupRRP(x, y, p) => st.stash(BoxedLockCollection::try_new((&a.r[*x], &a.r[*y], &a.pr[*p]))?),
				Native::NewOW(k, i) => match k {
					Kind::Boxed => st.stash(BoxedLockCollection::new_ref(&a.ow[*i])),
					Kind::Ref => st.stash(RefLockCollection::new(&a.ow[*i])),
					Kind::Retry => st.stash(RetryingLockCollection::new_ref(&a.ow[*i])),
				},
				Native::OwnedTupMR => {
					let u = self.new_unit();
					let mi = self.fresh(false, u);
					let ri = self.fresh(true, u);
					leaves = vec![mi, ri];
					st.stash(OwnedLockCollection::new((reg_m(mi), reg_r(ri))))
				}
				Native::OwnedArr3 => {
					let u = self.new_unit();
					let (v, ids) = self.fresh_rs(3, u);
					leaves = ids;
					let arr: [R; 3] = v.try_into().ok().unwrap();
					st.stash(OwnedLockCollection::new(arr))
				}
				Native::OwnedSlice(n) => {
					let u = self.new_unit();
					let (v, ids) = self.fresh_rs(*n, u);
					leaves = ids;
					st.stash(OwnedLockCollection::new(v.into_boxed_slice()))
				}
				Native::BoxedNewVec(n) => {
					let (v, ids) = self.fresh_rs(*n, 0);
					leaves = ids;
					st.stash(BoxedLockCollection::new(v))
				}
				Native::RetryNewVec(n) => {
					let (v, ids) = self.fresh_rs(*n, 0);
					leaves = ids;
					st.stash(RetryingLockCollection::new(v))
				}
				Native::RetryNewArr3 => {
					let (v, ids) = self.fresh_rs(3, 0);
					leaves = ids;
					let arr: [R; 3] = v.try_into().ok().unwrap();
					st.stash(RetryingLockCollection::new(arr))
				}
				Native::OwnedRetryR(n) => {
					let u = self.new_unit();
					let (v, mut ids) = self.fresh_rs(*n, u);
					let ri = self.fresh(true, u);
					ids.push(ri);
					leaves = ids;
					st.stash(OwnedLockCollection::new((RetryingLockCollection::new(v), reg_r(ri))))
				}
				Native::BoxedOwnedR(n) => {
					let u = self.new_unit();
					let (v, mut ids) = self.fresh_rs(*n, u);
					let ri = self.fresh(true, 0);
					ids.push(ri);
					leaves = ids;
					st.stash(BoxedLockCollection::new((OwnedLockCollection::new(v), reg_r(ri))))
				}
				Native::RetryOwnedR(n) => {
					let u = self.new_unit();
					let (v, mut ids) = self.fresh_rs(*n, u);
					let ri = self.fresh(true, 0);
					ids.push(ri);
					leaves = ids;
					st.stash(RetryingLockCollection::new((OwnedLockCollection::new(v), reg_r(ri))))
				}
				Native::OwnedPoisR => {
					let u = self.new_unit();
					let a_ = self.fresh(true, u);
					let b_ = self.fresh(true, u);
					leaves = vec![a_, b_];
					st.stash(OwnedLockCollection::new((Poisonable::new(reg_r(a_)), reg_r(b_))))
				}
				Native::MutRefs(which, n) => {
					// fresh locks in one allocation (ascending addresses = ascending ids), listed back to front
					let (v, ids) = self.fresh_rs(*n, 0);
					let boxed: &'w mut Box<[R]> = st.stash_mut(v.into_boxed_slice());
					let mut refs: Vec<&'w mut R> = boxed.iter_mut().collect();
					refs.reverse();
					leaves = ids.iter().rev().copied().collect();
					match which {
						0 => st.stash(OwnedLockCollection::new(refs)),
						1 => st.stash(BoxedLockCollection::new(refs)),
						2 => st.stash(RetryingLockCollection::new(refs)),
						_ => st.stash(RefLockCollection::new(st.stash(refs))),
					}
				}
				Native::TupN(which, n) => {
					let unit = if *which == 3 { self.new_unit() } else { 0 };
					let (v, ids) = self.fresh_rs(*n, unit);
					macro_rules! refs_tuple {
						($b:expr; $($i:tt)*) => { ($(&$b[$b.len() - 1 - $i],)*) };
					}
					macro_rules! owned_tuple {
						($it:expr; $($i:tt)*) => { ($({ let _ = $i; $it.next().unwrap() },)*) };
					}
					macro_rules! build_tup {
						($($i:tt)*) => {{
							if *which == 3 {
								leaves = ids.clone();
								let mut it = v.into_iter();
								st.stash(OwnedLockCollection::new(owned_tuple!(it; $($i)*)))
							} else {
								let boxed: &'w Box<[R]> = st.stash(v.into_boxed_slice());
								leaves = ids.iter().rev().copied().collect();
								let t = refs_tuple!(boxed; $($i)*);
								match which {
									0 => st.stash(BoxedLockCollection::try_new(t)?) as &'w dyn Coll,
									1 => st.stash(RefLockCollection::try_new(st.stash(t))?) as &'w dyn Coll,
									_ => st.stash(RetryingLockCollection::try_new(t)?) as &'w dyn Coll,
								}
							}
						}};
					}
					match n {
						1 => build_tup!(0),
						2 => build_tup!(0 1),
						3 => build_tup!(0 1 2),
						4 => build_tup!(0 1 2 3),
						5 => build_tup!(0 1 2 3 4),
						6 => build_tup!(0 1 2 3 4 5),
						7 => build_tup!(0 1 2 3 4 5 6),
						_ => panic!("harness: tuple arity {}", n),
					}
				}
				Native::OwnedDescIn(k, n) => {
					let (ow, mut ls) = self.shared_owned_desc(*n);
					let extra = self.fresh(true, 0);
					let r: &'w R = st.stash(reg_r(extra));
					ls.push(extra);
					leaves = ls;
					match k {
						Kind::Boxed => st.stash(BoxedLockCollection::try_new((ow, r))?),
						Kind::Ref => st.stash(RefLockCollection::try_new(st.stash((ow, r)))?),
						Kind::Retry => st.stash(RetryingLockCollection::try_new((ow, r))?),
					}
				}
				Native::OwnedDescItself(n) => {
					let (ow, ls) = self.shared_owned_desc(*n);
					leaves = ls;
					ow
				}
				Native::OwnedDescRef(k, n) => {
					let (ow, ls) = self.shared_owned_desc(*n);
					leaves = ls;
					match k {
						Kind::Boxed => st.stash(BoxedLockCollection::new_ref(ow)),
						Kind::Ref => st.stash(RefLockCollection::new(ow)),
						Kind::Retry => st.stash(RetryingLockCollection::new_ref(ow)),
					}
				}
				Native::ZstOwned(which, first) => {
					let unit = if *which == 3 { self.new_unit() } else { 0 };
					let id = self.fresh(true, unit);
					leaves = vec![id];
					if *first {
						let data = (OwnedLockCollection::new([]), reg_r(id));
						match which {
							0 => st.stash(BoxedLockCollection::new(data)),
							1 => st.stash(RefLockCollection::new(st.stash(data))),
							2 => st.stash(RetryingLockCollection::new(data)),
							_ => st.stash(OwnedLockCollection::new(data)),
						}
					} else {
						let data = (reg_r(id), OwnedLockCollection::new([]));
						match which {
							0 => st.stash(BoxedLockCollection::new(data)),
							1 => st.stash(RefLockCollection::new(st.stash(data))),
							2 => st.stash(RetryingLockCollection::new(data)),
							_ => st.stash(OwnedLockCollection::new(data)),
						}
					}
				}
				Native::MutRefsVia(which, n, via) => {
					let (v, ids) = self.fresh_rs(*n, 0);
					let boxed: &'w mut Box<[R]> = st.stash_mut(v.into_boxed_slice());
					let mut refs: Vec<&'w mut R> = boxed.iter_mut().collect();
					refs.reverse();
					leaves = ids.iter().rev().copied().collect();
					match (which, via) {
						(0, 1) => st.stash(OwnedLockCollection::from(refs)),
						(0, _) => st.stash(refs.into_iter().collect::<OwnedLockCollection<Vec<&'w mut R>>>()),
						(1, 1) => st.stash(BoxedLockCollection::from(refs)),
						(1, _) => st.stash(refs.into_iter().collect::<BoxedLockCollection<Vec<&'w mut R>>>()),
						(_, 1) => st.stash(RetryingLockCollection::from(refs)),
						(_, _) => st.stash(refs.into_iter().collect::<RetryingLockCollection<Vec<&'w mut R>>>()),
					}
				}
				Native::VecsFromRef => {
					let (data, hi, lo) = self.shared_vecs();
					leaves = hi.iter().chain(lo.iter()).copied().collect();
					st.stash(RefLockCollection::from(data))
				}
				Native::ZstFront(k, with_zst) => {
					let (b, ids) = self.shared_zblock();
					leaves = ids;
					if *with_zst {
						let t: crate::world::ZTup<'w> = (&b.z, &b.locks[0], &b.locks[1], &b.locks[2]);
						match k {
							Kind::Boxed => st.stash(BoxedLockCollection::try_new(t)?),
							Kind::Ref => st.stash(RefLockCollection::try_new(st.stash(t))?),
							Kind::Retry => st.stash(RetryingLockCollection::try_new(t)?),
						}
					} else {
						let arr: [&R; 3] = [&b.locks[0], &b.locks[1], &b.locks[2]];
						match k {
							Kind::Boxed => st.stash(BoxedLockCollection::try_new(arr)?),
							Kind::Ref => st.stash(RefLockCollection::try_new(st.stash(arr))?),
							Kind::Retry => st.stash(RetryingLockCollection::try_new(arr)?),
						}
					}
				}
				Native::VecsOwnedBoxed(via) => {
					let (b, hi, lo) = self.shared_vecs_owned(*via);
					leaves = hi.iter().chain(lo.iter()).copied().collect();
					b
				}
				Native::Arr3Unchecked(k, ix) => {
					assert!(ix[0] != ix[1] && ix[1] != ix[2] && ix[0] != ix[2], "harness: new_unchecked needs duplicate-free input");
					let arr: [&R; 3] = [&a.r[ix[0]], &a.r[ix[1]], &a.r[ix[2]]];
					unsafe {
						match k {
							Kind::Boxed => st.stash(BoxedLockCollection::new_unchecked(arr)),
							Kind::Ref => st.stash(RefLockCollection::new_unchecked(st.stash(arr))),
							Kind::Retry => st.stash(RetryingLockCollection::new_unchecked(arr)),
						}
					}
				}
				Native::VecsNew(k) => {
					let (data, hi, lo) = self.shared_vecs();
					leaves = hi.iter().chain(lo.iter()).copied().collect();
					match k {
						Kind::Boxed => st.stash(BoxedLockCollection::new_ref(data)),
						Kind::Ref => st.stash(RefLockCollection::new(data)),
						Kind::Retry => st.stash(RetryingLockCollection::new_ref(data)),
					}
				}
				Native::VecsRefs(k) => {
					let (data, hi, lo) = self.shared_vecs();
					// listed as hi[0], lo[0], lo[1], ... , hi[1..]
					let mut refs: Vec<&R> = vec![&data[0][0]];
					leaves = vec![hi[0]];
					for (i, r) in data[1].iter().enumerate() {
						refs.push(r);
						leaves.push(lo[i]);
					}
					for (i, r) in data[0].iter().enumerate().skip(1) {
						refs.push(r);
						leaves.push(hi[i]);
					}
					let b: Box<[&R]> = refs.into_boxed_slice();
					match k {
						Kind::Boxed => st.stash(BoxedLockCollection::try_new(b)?),
						Kind::Ref => st.stash(RefLockCollection::try_new(st.stash(b))?),
						Kind::Retry => st.stash(RetryingLockCollection::try_new(b)?),
					}
				}
				Native::ZstPair(k) => {
					let arr: [OwnedLockCollection<[R; 0]>; 2] = [OwnedLockCollection::new([]), OwnedLockCollection::new([])];
					match k {
						Kind::Boxed => st.stash(BoxedLockCollection::try_new(arr)?),
						Kind::Ref => st.stash(RefLockCollection::try_new(st.stash(arr))?),
						Kind::Retry => st.stash(RetryingLockCollection::try_new(arr)?),
					}
				}
				Native::ZstAround(k, i, j) => {
					let t: (OwnedLockCollection<[R; 0]>, &R, OwnedLockCollection<[R; 0]>, &R) = (OwnedLockCollection::new([]), &a.r[*i], OwnedLockCollection::new([]), &a.r[*j]);
					match k {
						Kind::Boxed => st.stash(BoxedLockCollection::try_new(t)?),
						Kind::Ref => st.stash(RefLockCollection::try_new(st.stash(t))?),
						Kind::Retry => st.stash(RetryingLockCollection::try_new(t)?),
					}
				}
				Native::PoisOwned(n) => {
					let u = self.new_unit();
					let (v, ids) = self.fresh_rs(*n, u);
					leaves = ids;
					st.stash(Poisonable::new(OwnedLockCollection::new(v)))
				}
			},
		};
		Some(Target { coll, leaves, desc: s.describe(), shape: s.shape_key(), retrying: s.retrying(), sharable: s.sharable(), spec: s.clone(), index: 0 })
	}
}

pub enum CollS<'w> {
	B(BS<'w>),
	F(FS<'w>),
	T(TS<'w>),
}
pub enum CollX<'w> {
	B(BX<'w>),
	F(FX<'w>),
	T(TX<'w>),
}
