//! Sequential input-enumeration checks: C04 (coverage / all-or-nothing), C13 (try exactness),
//! C07 (duplicate detection), C08 (one order), C17 (non-acquiring operations).

use std::collections::{BTreeMap, BTreeSet};

use happylock::ThreadKey;
use serde_json::json;

use crate::families::perms;
use crate::interp::{self, Body, Flavour, FLAVOURS};
use crate::report::{Report, Viol};
use crate::rt::{self, CallKind, Mode, Policy, Violation};
use crate::seq::{self, par_cases, SeqCtl};
use crate::shapes;
use crate::spec::{Kind, Native, Spec, Target, World, KINDS};
use crate::world::{ARENA_TOTAL, M0, PR0};

pub fn seq_assumptions(rep: &mut Report) {
	rep.assumptions = vec![
		"sequential mode: one real thread drives the public API; 'held by another thread' is an entry of a foreign thread id in the harness raw locks' owner table".into(),
		"a blocking raw acquisition that only foreign holders prevent completes through the environment rule (the foreign holders release)".into(),
		"VRaw grants exactly per its stated rules".into(),
	];
}

#[derive(Clone, Debug)]
pub struct SpecInfo {
	pub leaves: Vec<u32>,
	pub is_rw: Vec<bool>,
	pub sharable: bool,
}

/// Dry-build every spec once to learn its leaves.
pub fn probe_specs(specs: &[Spec]) -> Vec<Option<SpecInfo>> {
	par_cases(specs, |_, s| {
		let o = seq::case(Policy::RP, false, |w, ctl| {
			let t = w.build(s)?;
			ctl.init(w);
			let rw = w.is_rw.borrow();
			Some(SpecInfo { leaves: t.leaves.clone(), is_rw: t.leaves.iter().map(|l| rw[*l as usize]).collect(), sharable: t.sharable })
		});
		o.value.flatten()
	})
}

/// All hold assignments (0 free, 1 read-held, 2 write-held by a foreign thread) over the leaves.
pub fn assignments(info: &SpecInfo) -> Vec<Vec<u8>> {
	let n = info.leaves.len();
	let mut out: Vec<Vec<u8>> = vec![vec![]];
	for i in 0..n {
		let mut next = vec![];
		for a in &out {
			for v in 0..3u8 {
				if v == 1 && !info.is_rw[i] {
					continue;
				}
				let mut b = a.clone();
				b.push(v);
				next.push(b);
			}
		}
		out = next;
	}
	out
}

pub fn apply_assignment(ctl: &SeqCtl, leaves: &[u32], a: &[u8]) {
	for (l, v) in leaves.iter().zip(a) {
		match v {
			1 => ctl.prehold(*l, Mode::Shared),
			2 => ctl.prehold(*l, Mode::Excl),
			_ => {}
		}
	}
}

fn viol_to(rep: &mut Report, v: &Violation, replay: serde_json::Value) {
	rep.violation(Viol { prop: v.prop.to_string(), key: v.key.clone(), detail: v.detail.clone(), replay });
}

struct AcqCase {
	spec: usize,
	assign: Vec<u8>,
	flavour: Flavour,
	write: bool,
	/// a section of the target ended in a panic beforehand (0 = no): 1 write guard, 2 scoped_lock, 3 scoped_try_lock,
	/// 4 read guard, 5 scoped_read, 6 scoped_try_read. After an exclusive one every Poisonable reachable through
	/// the target is poisoned; after a shared one it may be
	poisoned: u8,
}

pub fn has_poisonable(s: &Spec) -> bool {
	match s {
		Spec::PR(_) | Spec::PM(_) | Spec::PPM | Spec::PPR | Spec::Pois(_) => true,
		Spec::Coll(_, ms) => ms.iter().any(has_poisonable),
		Spec::Native(n) => matches!(n, Native::BoxedTupRRP(..) | Native::OwnedPoisR | Native::PoisOwned(_)),
		_ => false,
	}
}

struct AcqOut {
	violations: Vec<Violation>,
	ok: bool,
	env: u32,
	outcome: String,
}

pub fn run_acq_case(s: &Spec, assign: &[u8], flavour: Flavour, write: bool, poisoned: u8, keep_trace: bool) -> seq::SeqOut<(bool, u32)> {
	seq::case(Policy::RP, keep_trace, |w, ctl| {
		let t = w.build(s).expect("probed");
		ctl.init(w);
		if poisoned != 0 {
			let (pw, pf) = match poisoned {
				1 => (true, Flavour::Guard),
				2 => (true, Flavour::ScopedLent),
				3 => (true, Flavour::ScopedTryOwned),
				4 => (false, Flavour::Guard),
				5 => (false, Flavour::ScopedLent),
				_ => (false, Flavour::ScopedTryLent),
			};
			let key = ThreadKey::get().expect("clean thread");
			let (key, _) = interp::acquire(&t, pw, pf, Body::PANIC, key, 99);
			drop(key);
		}
		apply_assignment(ctl, &t.leaves, assign);
		let before = ctl.table_fp();
		let key = ThreadKey::get().expect("clean thread");
		let (key, ok) = interp::acquire(&t, write, flavour, Body::TOUCH, key, 1);
		drop(key);
		let after = ctl.table_fp();
		// exact try outcome (C13) in this quiescent state
		if flavour.is_try() {
			let expect = if write { assign.iter().all(|v| *v == 0) } else { assign.iter().all(|v| *v != 2) };
			if ok != expect {
				rt::violation("C13", format!("try-outcome|{}|expected-{}", rt::what_key(&interp::what(&t, flavour.api(write))), if expect { "success" } else { "failure" }), format!("`{}` returned {} with leaf states {:?} over leaves {:?}", interp::what(&t, flavour.api(write)), if ok { "success" } else { "failure" }, assign, t.leaves));
			}
			if after != before {
				rt::violation("C13", format!("try-not-undone|{}", rt::what_key(&interp::what(&t, flavour.api(write)))), format!("after `{}` ({}) and dropping everything the hold state differs: {}", interp::what(&t, flavour.api(write)), if ok { "success" } else { "failure" }, ctl.table_string()));
			}
		} else if !ok {
			rt::violation("C04", format!("blocking-did-not-acquire|{}", rt::what_key(&interp::what(&t, flavour.api(write)))), "blocking acquisition returned without success".into());
		}
		(ok, ctl.env_steps())
	})
}

/// The acquisition sweep behind C04 (all flavours) and C13 (try flavours).
pub fn sweep_acquire(rep: &mut Report, specs: &[Spec], flavours: &[Flavour], prop: &str) {
	let infos = probe_specs(specs);
	let mut cases = vec![];
	for (si, info) in infos.iter().enumerate() {
		let Some(info) = info else {
			// every catalogue input is duplicate-free: a rejection is a duplicate-detection failure (C07), reported as a
			// cross-reference here; the sweep goes on without that shape
			rep.violation(Viol { prop: "C07".into(), key: format!("false-duplicate|{}", specs[si].shape_key()), detail: format!("the checked constructor rejected the duplicate-free catalogue input {}", specs[si].describe()), replay: json!({"kind": "seq-construct", "spec": specs[si]}) });
			continue;
		};
		for a in assignments(info) {
			for f in flavours {
				for write in [true, false] {
					if !write && !info.sharable {
						continue;
					}
					cases.push(AcqCase { spec: si, assign: a.clone(), flavour: *f, write, poisoned: 0 });
					if has_poisonable(&specs[si]) {
						cases.push(AcqCase { spec: si, assign: a.clone(), flavour: *f, write, poisoned: 1 });
						// the other ways a section can end in a panic (free and all-read-held patterns only)
						if a.iter().all(|v| *v == 0) || a.iter().all(|v| *v == 1) {
							for route in 2..=6u8 {
								if route >= 4 && !info.sharable {
									continue;
								}
								cases.push(AcqCase { spec: si, assign: a.clone(), flavour: *f, write, poisoned: route });
							}
						}
					}
				}
			}
		}
	}
	let outs = par_cases(&cases, |_, c| {
		let o = run_acq_case(&specs[c.spec], &c.assign, c.flavour, c.write, c.poisoned, false);
		let (ok, env) = o.value.unwrap_or((false, 0));
		let mut violations = o.violations;
		if o.outcome != "ok" {
			violations.push(Violation { prop: "C04", key: format!("unexpected-{}|{}", o.outcome.split(':').next().unwrap(), specs[c.spec].shape_key()), detail: format!("case ended with {} (spec {}, {:?}, write={}, holds {:?})", o.outcome, specs[c.spec].describe(), c.flavour, c.write, c.assign) });
		}
		AcqOut { violations, ok, env, outcome: o.outcome }
	});
	let mut nontrivial = BTreeSet::new();
	for (c, o) in cases.iter().zip(&outs) {
		rep.add("evaluations", 1);
		if !o.ok || o.env > 0 {
			// the interesting branch was taken: a try failed (rollback ran) or a blocking call had to wait
			nontrivial.insert((c.spec, c.assign.clone(), c.flavour, c.write, c.poisoned));
		}
		if o.ok {
			rep.add("acquisitions_succeeded", 1);
		} else {
			rep.add("acquisitions_failed", 1);
		}
		for v in &o.violations {
			viol_to(rep, v, json!({"kind": "seq-acquire", "spec": specs[c.spec], "assign": c.assign, "flavour": c.flavour, "write": c.write, "poisoned": c.poisoned}));
		}
		let _ = &o.outcome;
	}
	rep.add("distinct_nontrivial", nontrivial.len() as u64);
	rep.add("shapes", specs.len() as u64);
	if let Some((c, _)) = cases.iter().zip(&outs).find(|(c, o)| !o.ok && c.assign.len() >= 3) {
		rep.sample(json!({"spec": specs[c.spec].describe(), "leaf_states(0 free,1 read-held,2 write-held)": c.assign, "api": c.flavour.api(c.write), "result": "failed, nothing held, table unchanged"}));
	}
	if let Some((c, _)) = cases.iter().zip(&outs).find(|(c, o)| o.env > 0 && c.assign.len() >= 3) {
		rep.sample(json!({"spec": specs[c.spec].describe(), "leaf_states": c.assign, "api": c.flavour.api(c.write), "result": "blocked on foreign holders, completed after they released; held set == leaves"}));
	}
	let _ = prop;
}

pub fn check_c13(tier: &str) -> ! {
	let mut rep = Report::new("C13", tier, "exploration");
	seq_assumptions(&mut rep);
	let specs = shapes::catalogue(if tier == "thorough" { 6 } else { 5 });
	let tries: Vec<Flavour> = FLAVOURS.iter().copied().filter(|f| f.is_try()).collect();
	sweep_acquire(&mut rep, &specs, &tries, "C13");
	rep.set("rule", "every catalogue shape (all kinds, sizes 0..max, every arrangement, depth<=2 nestings, Poisonable in/outside, native containers) x every assignment of {free, read-held, write-held by another thread} to its leaves x {try_lock, try_read, scoped_try_* with lent and owned key}; non-trivial = the try failed (a rollback or early return ran)");
	rep.finish()
}

pub fn check_c04(tier: &str) -> ! {
	let mut rep = Report::new("C04", tier, "exploration");
	seq_assumptions(&mut rep);
	let specs = shapes::catalogue(if tier == "thorough" { 6 } else { 5 });
	sweep_acquire(&mut rep, &specs, &FLAVOURS, "C04");
	// the concurrent invariant: same oracles at every acquisition return with real concurrent holders
	let mut crep = Report::new("C04", tier, "model_checking");
	crate::conc::core_families(&mut crep, tier == "thorough");
	// all-or-nothing also when a Poisonable's flag changes between two steps of one try (family P: a holder panics
	// while another thread acquires in every flavour)
	crate::conc::poison_family_into(&mut crep, tier == "thorough");
	for k in ["programs", "states", "transitions", "traces_validated_against_impl"] {
		rep.set(&format!("concurrent_{}", k), crep.get(k));
	}
	for v in crep.violations.drain(..).chain(crep.xrefs.drain(..)) {
		rep.violation(v);
	}
	rep.machinery.extend(crep.machinery);
	rep.set("rule", "sequential: every catalogue shape x every assignment of {free, read-held, write-held by another thread} to its leaves x {lock, read, unlock, try_*, scoped_* with lent/owned key}; held set after success must equal the flattened leaf set in the requested mode, after failure nothing held, key back, no blocking raw op, closure exactly once iff success. Non-trivial = a try failed or a blocking call had to wait. concurrent_*: the same oracles evaluated at every acquisition return in the concurrent families");
	rep.finish()
}

// ------------------------------------------------------------------------------------------
// C07: duplicate detection is exact
// ------------------------------------------------------------------------------------------

fn has_dup(units: &[u32]) -> bool {
	let mut s = BTreeSet::new();
	units.iter().any(|u| !s.insert(*u))
}

pub fn c07_inputs(thorough: bool) -> Vec<Spec> {
	let mut out = vec![];
	let maxlen = if thorough { 8 } else { 7 };
	// every member list of length 0..maxlen over 5 rwlock leaves
	let mut lists: Vec<Vec<usize>> = vec![vec![]];
	let mut frontier = lists.clone();
	for _ in 0..maxlen {
		let mut next = vec![];
		for l in &frontier {
			for i in 0..5 {
				let mut m = l.clone();
				m.push(i);
				next.push(m);
			}
		}
		lists.extend(next.iter().cloned());
		frontier = next;
	}
	for k in KINDS {
		for l in &lists {
			// length-7 lists only for one kind per run to bound the cost
			out.push(Spec::Coll(k, l.iter().map(|i| Spec::R(*i)).collect()));
		}
	}
	// mutex lists (exclusive-only family) up to length 4 over 3 leaves
	let mut mlists: Vec<Vec<usize>> = vec![vec![]];
	let mut fr = mlists.clone();
	for _ in 0..4 {
		let mut next = vec![];
		for l in &fr {
			for i in 0..3 {
				let mut m = l.clone();
				m.push(i);
				next.push(m);
			}
		}
		mlists.extend(next.iter().cloned());
		fr = next;
	}
	for k in KINDS {
		for l in &mlists {
			if l.is_empty() {
				continue;
			}
			out.push(Spec::Coll(k, l.iter().map(|i| Spec::M(*i)).collect()));
		}
	}
	// nested members next to plain lists: every sub-list (len<=3 over 3 leaves) as a nested member
	// of each kind / owned unit / poisonable, next to every list of length <= (thorough?4:3) over the same leaves
	let mut sub: Vec<Vec<usize>> = vec![vec![]];
	let mut fr = sub.clone();
	for _ in 0..3 {
		let mut next = vec![];
		for l in &fr {
			for i in 0..3 {
				if l.contains(&i) {
					continue; // the nested member itself must be duplicate-free to exist
				}
				let mut m = l.clone();
				m.push(i);
				next.push(m);
			}
		}
		sub.extend(next.iter().cloned());
		fr = next;
	}
	let mut outer: Vec<Vec<usize>> = vec![vec![]];
	let mut fr = outer.clone();
	for _ in 0..(if thorough { 4 } else { 3 }) {
		let mut next = vec![];
		for l in &fr {
			for i in 0..3 {
				let mut m = l.clone();
				m.push(i);
				next.push(m);
			}
		}
		outer.extend(next.iter().cloned());
		fr = next;
	}
	let rsv = |l: &Vec<usize>| l.iter().map(|i| Spec::R(*i)).collect::<Vec<_>>();
	for k in KINDS {
		for k2 in KINDS {
			for s in &sub {
				let inner = Spec::Coll(k2, rsv(s));
				for o in &outer {
					if o.len() > 2 && !thorough && k != k2 {
						continue;
					}
					// nested first, nested last, nested in the middle
					let mut a = vec![inner.clone()];
					a.extend(rsv(o));
					out.push(Spec::Coll(k, a));
					let mut b = rsv(o);
					b.push(inner.clone());
					out.push(Spec::Coll(k, b));
					if o.len() >= 2 {
						let mut c = rsv(o);
						c.insert(1, inner.clone());
						out.push(Spec::Coll(k, c));
					}
				}
			}
			// two nested members
			for s1 in &sub {
				for s2 in &sub {
					if s1.len() + s2.len() > 4 {
						continue;
					}
					out.push(Spec::Coll(k, vec![Spec::Coll(k2, rsv(s1)), Spec::Coll(k2, rsv(s2))]));
					out.push(Spec::Coll(k, vec![Spec::Coll(k2, rsv(s1)), Spec::Pois(Box::new(Spec::Coll(k2, rsv(s2))))]));
				}
			}
		}
		// owned units, poisonable leaves, double wrappers
		let extra: Vec<Spec> = vec![Spec::OW(0), Spec::OW(1), Spec::PR(0), Spec::PR(1), Spec::PPR, Spec::R(0), Spec::R(1)];
		for a in &extra {
			for b in &extra {
				out.push(Spec::Coll(k, vec![a.clone(), b.clone()]));
				for c in &extra {
					out.push(Spec::Coll(k, vec![a.clone(), b.clone(), c.clone()]));
				}
				out.push(Spec::Coll(k, vec![a.clone(), Spec::Coll(Kind::Boxed, vec![b.clone()])]));
				out.push(Spec::Coll(k, vec![Spec::Pois(Box::new(Spec::Coll(Kind::Retry, vec![a.clone()]))), b.clone()]));
			}
		}
		let xextra: Vec<Spec> = vec![Spec::M(0), Spec::PM(0), Spec::PPM, Spec::M(1), Spec::R(0), Spec::OW(0)];
		for a in &xextra {
			for b in &xextra {
				out.push(Spec::Coll(k, vec![a.clone(), b.clone()]));
				out.push(Spec::Coll(k, vec![a.clone(), Spec::Coll(Kind::Ref, vec![b.clone()]), Spec::M(2)]));
			}
		}
		// native containers
		for a in 0..3 {
			for b in 0..3 {
				for c in 0..3 {
					out.push(Spec::Native(Native::Arr3(k, [a, b, c])));
				}
				out.push(Spec::Native(Native::Slice(k, vec![a, b])));
				out.push(Spec::Native(Native::Slice(k, vec![a, 2, b])));
			}
		}
		out.push(Spec::Native(Native::Slice(k, vec![])));
		// zero-sized members: distinct empty owned collections are not duplicates of each other
		out.push(Spec::Native(Native::ZstPair(k)));
		for i in 0..3 {
			for j in 0..3 {
				out.push(Spec::Native(Native::ZstAround(k, i, j)));
			}
		}
	}
	for a in 0..2 {
		for b in 0..2 {
			for c in 0..2 {
				for d in 0..2 {
					out.push(Spec::Native(Native::BoxedTupVecs(vec![a, b], vec![c, d])));
				}
			}
			out.push(Spec::Native(Native::BoxedTupRRP(a, b, 0)));
		}
	}
	out
}

pub fn check_c07(tier: &str) -> ! {
	let mut rep = Report::new("C07", tier, "exploration");
	seq_assumptions(&mut rep);
	let inputs = c07_inputs(tier == "thorough");
	struct Out {
		built: bool,
		violations: Vec<Violation>,
		outcome: String,
	}
	let outs = par_cases(&inputs, |_, s| {
		let expect_dup = has_dup(&s.units());
		let o = seq::case(Policy::RP, false, |w, ctl| {
			let t = w.build(s);
			ctl.init(w);
			match (&t, expect_dup) {
				(None, false) => rt::violation("C07", format!("false-duplicate|{}", s.shape_key()), format!("try_new rejected the duplicate-free input {} (units {:?})", s.describe(), s.units())),
				(Some(_), true) => rt::violation("C07", format!("missed-duplicate|{}", s.shape_key()), format!("try_new accepted {} although a lock is reachable twice (units {:?})", s.describe(), s.units())),
				_ => {}
			}
			if let (Some(t), false) = (&t, expect_dup) {
				// usable: one lock/unlock round trip holds exactly the flattened leaves
				let key = ThreadKey::get().expect("clean");
				let (key, ok) = interp::acquire(t, true, Flavour::GuardUnlock, Body::NONE, key, 1);
				if !ok {
					rt::violation("C07", format!("unusable|{}", s.shape_key()), format!("accepted collection {} could not be locked", s.describe()));
				}
				drop(key);
			}
			t.is_some()
		});
		let mut violations: Vec<Violation> = o.violations.into_iter().map(|mut v| {
			if v.prop != "C07" {
				// a coverage problem of an accepted collection is a usability failure of the constructor's result
				v.key = format!("unusable:{}:{}", v.prop, v.key);
			}
			v
		}).collect();
		if o.outcome != "ok" {
			violations.push(Violation { prop: "C07", key: format!("unexpected-{}|{}", o.outcome.split(':').next().unwrap(), s.shape_key()), detail: format!("constructor case for {} ended with {}", s.describe(), o.outcome) });
		}
		Out { built: o.value.unwrap_or(false), violations, outcome: o.outcome }
	});
	let mut dup_inputs = 0u64;
	let mut distinct = BTreeSet::new();
	for (s, o) in inputs.iter().zip(&outs) {
		rep.add("evaluations", 1);
		if has_dup(&s.units()) {
			dup_inputs += 1;
			distinct.insert(s.clone());
		}
		if o.built {
			rep.add("accepted", 1);
		} else {
			rep.add("rejected", 1);
		}
		for v in &o.violations {
			let prop = if v.prop == "C07" { "C07" } else { "C07" };
			rep.violation(Viol { prop: prop.into(), key: v.key.clone(), detail: v.detail.clone(), replay: json!({"kind": "seq-construct", "spec": s}) });
		}
		let _ = &o.outcome;
	}
	rep.set("distinct_nontrivial", distinct.len() as u64);
	rep.set("inputs_with_duplicate", dup_inputs);
	rep.sample(json!({"input": inputs.iter().find(|s| has_dup(&s.units()) && s.units().len() >= 4).map(|s| s.describe()), "expected": "None (a lock is reachable twice)"}));
	rep.sample(json!({"input": inputs.iter().rev().find(|s| !has_dup(&s.units()) && s.units().len() >= 3).map(|s| s.describe()), "expected": "Some(collection); lock+unlock round trip holds exactly its leaves"}));
	rep.set("rule", "every member list of length 0..6 over 5 rwlock leaves (0..4 over 3 mutex leaves) for Boxed/Ref/Retrying::try_new, plus nested Boxed/Ref/Retrying/Owned/Poisonable members over every sub-list next to every short list, native arrays/tuples/boxed slices; oracle: None iff the multiset of units (leaf locks; an owned collection counts as one unit) has a repeat by identity; every accepted collection must lock exactly its leaves. Non-trivial = inputs that contain a duplicate (distinct inputs counted)");
	// the compile-time clause: new / new_ref (and From / FromIterator / Extend) are accepted only for owning inputs
	crate::corpus::run_route("new-with-reference-input", "C07", &mut rep);
	rep.notes.push("the compile-time clause (new/new_ref only accept owning inputs) is decided by the corpus route new-with-reference-input (also part of C15)".into());
	rep.finish()
}

// ------------------------------------------------------------------------------------------
// C08: one arrangement-independent order
// ------------------------------------------------------------------------------------------

pub fn c08_inputs(thorough: bool) -> Vec<Spec> {
	let mut out = vec![];
	// universe: r0..r4 (5 units); every arrangement of every subset of size >= 2
	for mask in 0u32..32 {
		let members: Vec<usize> = (0..5).filter(|i| mask >> i & 1 == 1).collect();
		if members.len() < 2 {
			continue;
		}
		for p in perms(members.len()) {
			let l: Vec<Spec> = p.iter().map(|i| Spec::R(members[*i])).collect();
			out.push(Spec::Coll(Kind::Boxed, l.clone()));
			out.push(Spec::Coll(Kind::Ref, l));
		}
	}
	// nested members: their leaves must be merged into the common order
	let r = |i| Spec::R(i);
	for k in [Kind::Boxed, Kind::Ref] {
		for k2 in KINDS {
			for inner in [vec![3usize, 1], vec![1, 3], vec![4, 0], vec![2, 4, 0]] {
				let innerspec = Spec::Coll(k2, inner.iter().map(|i| r(*i)).collect());
				let rest: Vec<usize> = (0..5).filter(|i| !inner.contains(i)).collect();
				let rest_perms = if thorough { perms(rest.len()) } else { perms(rest.len()).into_iter().step_by(2).collect() };
				for p in rest_perms {
					let rl: Vec<Spec> = p.iter().map(|i| r(rest[*i])).collect();
					for pos in 0..=rl.len() {
						let mut l = rl.clone();
						l.insert(pos, innerspec.clone());
						out.push(Spec::Coll(k, l));
					}
				}
			}
			// poisonable around nested, poisonable leaves
			out.push(Spec::Coll(k, vec![Spec::Pois(Box::new(Spec::Coll(k2, vec![r(4), r(1)]))), r(3), r(0)]));
			out.push(Spec::Pois(Box::new(Spec::Coll(k, vec![Spec::Coll(k2, vec![r(4), r(1)]), r(3), r(0)]))));
		}
		// owned groups are ordered as one unit
		for l in [vec![Spec::OW(0), r(4), r(0)], vec![r(4), Spec::OW(0), r(0)], vec![r(0), Spec::OW(1), r(4), Spec::OW(0)], vec![Spec::OW(1), Spec::OW(0)], vec![Spec::OW(0), Spec::OW(1), r(2)], vec![Spec::PR(0), r(4), Spec::PR(1), r(0)], vec![r(1), Spec::PPR, Spec::PR(0)]] {
			out.push(Spec::Coll(k, l.clone()));
			let mut rev = l.clone();
			rev.reverse();
			out.push(Spec::Coll(k, rev));
		}
	}
	for k in [Kind::Boxed, Kind::Ref] {
		for a in perms(3) {
			out.push(Spec::Native(Native::Arr3(k, [a[0] + 1, a[1] + 1, a[2] + 1])));
			out.push(Spec::Native(Native::Arr3Unchecked(k, [a[0] + 2, a[1] + 2, a[2] + 2])));
			out.push(Spec::Native(Native::Slice(k, vec![a[0], a[1] + 2, a[2]].into_iter().collect::<BTreeSet<_>>().into_iter().collect::<Vec<_>>().into_iter().rev().collect())));
		}
	}
	out.push(Spec::Native(Native::BoxedTupRRP(3, 1, 0)));
	out.push(Spec::Native(Native::BoxedTupRRP(1, 3, 1)));
	// owned data listed against its address order, through the unchecked-at-runtime constructors of the sorting
	// collections and through checked collections of references to the same locks
	// `&mut` members listed in descending address order: the sorting collections must still ascend
	out.push(Spec::Native(Native::MutRefs(1, 3)));
	out.push(Spec::Native(Native::MutRefs(3, 3)));
	out.push(Spec::Native(Native::BoxedNewVec(3)));
	// tuples of every arity, members listed in descending address order
	for which in [0u8, 1] {
		for n in 2..=7 {
			out.push(Spec::Native(Native::TupN(which, n)));
		}
	}
	// an owned unit whose members are listed in descending address order, inside a sorting collection
	for k in [Kind::Boxed, Kind::Ref] {
		for n in 2..=3 {
			out.push(Spec::Native(Native::OwnedDescIn(k, n)));
			out.push(Spec::Native(Native::OwnedDescRef(k, n)));
		}
	}
	out.push(Spec::Native(Native::VecsFromRef));
	for via in 0..3u8 {
		out.push(Spec::Native(Native::VecsOwnedBoxed(via)));
	}
	// a zero-sized member at the address of the lowest lock, listed first
	for k in [Kind::Boxed, Kind::Ref] {
		for with_zst in [true, false] {
			out.push(Spec::Native(Native::ZstFront(k, with_zst)));
		}
	}
	for via in [1u8, 2] {
		out.push(Spec::Native(Native::MutRefsVia(1, 3, via)));
	}
	for k in [Kind::Boxed, Kind::Ref] {
		out.push(Spec::Native(Native::VecsNew(k)));
		out.push(Spec::Native(Native::VecsRefs(k)));
	}
	out
}

/// The order in which the last call took the locks it ended up with: every successful raw acquisition counts,
/// blocking or not (a lock taken twice counts where it was taken last).
fn acquired_order(ctl: &SeqCtl) -> Vec<u32> {
	let all: Vec<u32> = ctl.last_acquired().iter().map(|(l, _)| *l).collect();
	let mut out: Vec<u32> = vec![];
	for (i, l) in all.iter().enumerate() {
		if !all[i + 1..].contains(l) {
			out.push(*l);
		}
	}
	out
}

pub fn check_c08(tier: &str) -> ! {
	let mut rep = Report::new("C08", tier, "exploration");
	seq_assumptions(&mut rep);
	let inputs = c08_inputs(tier == "thorough");
	struct Out {
		seqs: Vec<(bool, Vec<u32>)>,
		violations: Vec<Violation>,
		outcome: String,
	}
	let outs = par_cases(&inputs, |_, s| {
		let o = seq::case(Policy::RP, false, |w, ctl| {
			let t = w.build(s).expect("duplicate-free input");
			let unrelated = w.build(&Spec::Coll(Kind::Retry, vec![Spec::R(2), Spec::R(0)])).unwrap();
			ctl.init(w);
			let mut seqs = vec![];
			let mut key = ThreadKey::get().expect("clean");
			for round in 0..2 {
				for write in [true, false] {
					if !write && !t.sharable {
						continue;
					}
					let (k, _) = interp::acquire(&t, write, Flavour::Guard, Body::NONE, key, 1);
					key = k;
					seqs.push((write, acquired_order(ctl)));
				}
				if round == 0 {
					// an unrelated acquisition in between
					let (k, _) = interp::acquire(&unrelated, true, Flavour::ScopedLent, Body::NONE, key, 1);
					key = k;
				}
			}
			// the same under contention: one member at a time is write-held by another thread when the call starts
			// (it is released once the caller blocks); the order in which the caller ends up taking the locks is the same
			if t.leaves.len() <= 5 {
				for p in 0..t.leaves.len() {
					for write in [true, false] {
						if !write && !t.sharable {
							continue;
						}
						ctl.prehold(t.leaves[p], Mode::Excl);
						let (k, _) = interp::acquire(&t, write, Flavour::Guard, Body::NONE, key, 1);
						key = k;
						seqs.push((write, acquired_order(ctl)));
					}
				}
			}
			drop(key);
			// an owned group's leaves must be contiguous and in declared order (arena units and the units of native shapes)
			{
				let unit_of = w.unit.borrow().clone();
				let mut units: Vec<u32> = t.leaves.iter().map(|l| unit_of[*l as usize]).filter(|u| *u != 0).collect();
				units.sort();
				units.dedup();
				for (_, sq) in &seqs {
					for u in &units {
						let declared: Vec<u32> = t.leaves.iter().copied().filter(|l| unit_of[*l as usize] == *u).collect();
						let pos: Vec<usize> = sq.iter().enumerate().filter(|(_, l)| declared.contains(l)).map(|(i, _)| i).collect();
						if !pos.is_empty() {
							let contiguous = pos.windows(2).all(|w| w[1] == w[0] + 1);
							let in_order = pos.iter().map(|i| sq[*i]).collect::<Vec<_>>() == declared;
							if !contiguous || !in_order {
								rt::violation("C08", format!("owned-unit-split|{}", s.shape_key()), format!("owned unit {} (declared {:?}) is not acquired as one contiguous block in its declared order: blocking sequence {:?} for {}", u, declared, sq, s.describe()));
							}
						}
					}
				}
			}
			// same collection, same sequence every time and in both modes
			for (w1, s1) in &seqs {
				if *s1 != seqs[0].1 {
					rt::violation("C08", format!("unstable-order|{}", s.shape_key()), format!("{} took its locks as {:?} and later ({}) as {:?}", s.describe(), seqs[0].1, if *w1 { "write" } else { "read" }, s1));
				}
			}
			// the acquisition covers every leaf
			if seqs[0].1.len() != t.leaves.len() {
				rt::violation("C08", format!("not-all-acquired|{}", s.shape_key()), format!("{}: acquisition sequence {:?} does not cover the leaves {:?}", s.describe(), seqs[0].1, t.leaves));
			}
			seqs
		});
		let mut violations = o.violations;
		if o.outcome != "ok" {
			violations.push(Violation { prop: "C08", key: format!("unexpected-{}|{}", o.outcome.split(':').next().unwrap(), s.shape_key()), detail: format!("case for {} ended with {}", s.describe(), o.outcome) });
		}
		Out { seqs: o.value.unwrap_or_default(), violations, outcome: o.outcome }
	});
	// pairwise agreement over all sequences of all collections: one relative order per pair of locks
	let mut order: BTreeMap<(u32, u32), (usize, Vec<u32>)> = BTreeMap::new();
	let mut pairs_checked = 0u64;
	let mut nontrivial = BTreeSet::new();
	for (i, (s, o)) in inputs.iter().zip(&outs).enumerate() {
		rep.add("evaluations", o.seqs.len() as u64);
		for v in &o.violations {
			viol_to(&mut rep, v, json!({"kind": "seq-order", "spec": s}));
		}
		let _ = &o.outcome;
		for (_, sq) in &o.seqs {
			// non-trivial: listing order differs from acquisition order
			let declared = s.arena_leaves();
			if *sq != declared {
				nontrivial.insert(i);
			}
			for a in 0..sq.len() {
				for b in a + 1..sq.len() {
					let (x, y) = (sq[a], sq[b]);
					// fresh locks exist only in one input's world: their ids mean nothing across inputs (their order
					// is compared across that input's own acquisitions above) - except for the inputs built over the
					// one shared `[Vec; 2]` data set, whose locks are the same objects at the same relative addresses
					let class: u8 = if x < ARENA_TOTAL && y < ARENA_TOTAL {
						0
					} else if matches!(s, Spec::Native(Native::VecsNew(_) | Native::VecsRefs(_) | Native::VecsFromRef | Native::VecsOwnedBoxed(_))) {
						1
					} else if matches!(s, Spec::Native(Native::ZstFront(..))) {
						// the shared block of a zero-sized member and three locks: the same objects in every world
						2
					} else {
						continue;
					};
					let (x, y) = (x | (class as u32) << 24, y | (class as u32) << 24);
					pairs_checked += 1;
					if let Some((j, other)) = order.get(&(y, x)) {
						rep.violation(Viol {
							prop: "C08".into(),
							key: format!("order-disagreement|{}", s.shape_key()),
							detail: format!("{} takes L{} before L{} (sequence {:?}) but {} takes them the other way round (sequence {:?})", s.describe(), x & 0xff_ffff, y & 0xff_ffff, sq, inputs[*j].describe(), other),
							replay: json!({"kind": "seq-order-pair", "spec_a": s, "spec_b": inputs[*j]}),
						});
					}
					order.entry((x, y)).or_insert((i, sq.clone()));
				}
			}
		}
	}
	rep.set("lock_pairs_compared", pairs_checked);
	rep.set("collections", inputs.len() as u64);
	rep.set("distinct_nontrivial", nontrivial.len() as u64);
	if let Some(i) = nontrivial.iter().next() {
		rep.sample(json!({"collection": inputs[*i].describe(), "blocking_acquisition_sequence": outs[*i].seqs.first().map(|s| s.1.clone())}));
	}
	if let Some(i) = nontrivial.iter().last() {
		rep.sample(json!({"collection": inputs[*i].describe(), "blocking_acquisition_sequence": outs[*i].seqs.first().map(|s| s.1.clone())}));
	}
	rep.set("rule", "every arrangement of every subset (size>=2) of a 5-lock universe for Boxed and Ref collections, plus nested Boxed/Ref/Retrying members at every position, owned groups, poisonable members, native containers; each acquired twice in write and read mode with an unrelated acquisition in between, and once more per member with that member write-held by another thread when the call starts; the sequence of successful raw acquisitions (blocking or not) is extracted from the trace and every pair of locks must have one relative order across ALL sequences. Non-trivial = collections whose listing order differs from the acquisition order");
	rep.finish()
}

// ------------------------------------------------------------------------------------------
// C17: non-acquiring operations never wait and never disturb holds
// ------------------------------------------------------------------------------------------

#[derive(Clone, Copy, Debug, PartialEq, Eq, PartialOrd, Ord, serde::Serialize, serde::Deserialize)]
pub enum Holder {
	Foreign,
	/// the calling thread, through a live guard of a collection over exactly the held leaves
	SelfGuard,
	/// the calling thread, inside a running scoped closure
	SelfScoped,
	/// a guard of the calling thread leaked with mem::forget
	SelfLeaked,
	/// the calling thread holds the target itself through its own live guard (all leaves)
	OwnGuard,
	/// the calling thread is inside a scoped closure of the target itself
	OwnScoped,
}

#[derive(Clone, Copy, Debug, PartialEq, Eq, PartialOrd, Ord, serde::Serialize, serde::Deserialize)]
pub enum NonAcq {
	DebugTarget,
	Construct,
	PoisonQueries,
	DebugGuardOfOther,
	/// is_poisoned + clear_poison on Poisonables that really are poisoned
	PoisonQueriesPoisoned,
}

#[derive(Clone, Debug)]
pub struct NaCase {
	pub spec: usize,
	pub assign: Vec<u8>,
	pub holder: Holder,
	pub op: NonAcq,
	pub policy: Policy,
	pub queued_writer: bool,
}

fn run_nonacq(s: &Spec, t: Option<&Target<'_>>, w: &World<'_>, op: NonAcq) {
	match op {
		NonAcq::DebugTarget => {
			let t = t.unwrap();
			rt::begin_call(CallKind::NonAcquiring, false, format!("{}::Debug #{}", t.shape, t.desc));
			let d = t.coll.debug();
			rt::end_call();
			assert!(!d.is_empty());
		}
		NonAcq::Construct => {
			rt::begin_call(CallKind::NonAcquiring, false, format!("{}::construct #{}", s.shape_key(), s.describe()));
			let again = w.build(s);
			rt::end_call();
			assert!(again.is_some());
		}
		NonAcq::PoisonQueries => {
			let t = t.unwrap();
			rt::begin_call(CallKind::NonAcquiring, false, format!("{}::is_poisoned/clear_poison #{}", t.shape, t.desc));
			let p = t.coll.is_poisoned();
			t.coll.clear_poison();
			for x in &w.arena.pr {
				let _ = x.is_poisoned();
				x.clear_poison();
			}
			for x in &w.arena.pm {
				let _ = x.is_poisoned();
				x.clear_poison();
			}
			rt::end_call();
			let _ = p;
		}
		NonAcq::DebugGuardOfOther => {}
		NonAcq::PoisonQueriesPoisoned => {
			let t = t.unwrap();
			rt::begin_call(CallKind::NonAcquiring, false, format!("{}::is_poisoned/clear_poison(poisoned) #{}", t.shape, t.desc));
			let p = t.coll.is_poisoned();
			t.coll.clear_poison();
			let p2 = t.coll.is_poisoned();
			let mut seen = vec![];
			for x in &w.arena.pr {
				seen.push(x.is_poisoned());
				x.clear_poison();
				seen.push(!x.is_poisoned());
			}
			for x in &w.arena.pm {
				seen.push(x.is_poisoned());
				x.clear_poison();
				seen.push(!x.is_poisoned());
			}
			rt::end_call();
			if p == Some(false) || p2 == Some(true) || seen.iter().any(|b| !*b) {
				rt::violation("C10", format!("poison-queries|{}", t.shape), format!("is_poisoned/clear_poison on the poisoned {}: before {:?}, after {:?}, arena {:?}", t.desc, p, p2, seen));
			}
		}
	}
}

/// Poison the target (if it is a Poisonable) and every arena Poisonable: a panic with the guard alive.
fn poison_everything(t: &Target<'_>, w: &World<'_>) {
	use std::panic::{catch_unwind, resume_unwind, AssertUnwindSafe};
	let go = |f: &mut dyn FnMut(ThreadKey)| {
		let key = ThreadKey::get().expect("key free while poisoning");
		rt::begin_call(CallKind::Acquire, false, "poison-setup".into());
		let r = catch_unwind(AssertUnwindSafe(|| f(key)));
		rt::end_call();
		assert!(r.is_err());
	};
	if t.coll.is_poisoned().is_some() {
		go(&mut |key| {
			let _g = t.coll.lock(key);
			resume_unwind(Box::new(rt::UserPanic(7777)));
		});
	}
	for x in &w.arena.pr {
		go(&mut |key| {
			let _g = x.lock(key);
			resume_unwind(Box::new(rt::UserPanic(7777)));
		});
	}
	for x in &w.arena.pm {
		go(&mut |key| {
			let _g = x.lock(key);
			resume_unwind(Box::new(rt::UserPanic(7777)));
		});
	}
}

pub fn check_c17(tier: &str) -> ! {
	let mut rep = Report::new("C17", tier, "exploration");
	seq_assumptions(&mut rep);
	let specs = shapes::catalogue(if tier == "thorough" { 5 } else { 4 });
	let infos = probe_specs(&specs);
	let mut cases = vec![];
	for (si, info) in infos.iter().enumerate() {
		let Some(info) = info else { continue };
		for a in assignments(info) {
			for op in [NonAcq::DebugTarget, NonAcq::Construct, NonAcq::PoisonQueries, NonAcq::PoisonQueriesPoisoned] {
				if matches!(op, NonAcq::PoisonQueries | NonAcq::PoisonQueriesPoisoned) && !matches!(specs[si], Spec::Pois(_) | Spec::PR(_) | Spec::PM(_) | Spec::PPM | Spec::PPR | Spec::Native(Native::PoisOwned(_))) {
					continue;
				}
				if op == NonAcq::Construct && matches!(&specs[si], Spec::Native(n) if !matches!(n, Native::Arr3(..) | Native::TupMR(..) | Native::Slice(..) | Native::BoxedTupVecs(..) | Native::BoxedTupRRP(..) | Native::NewOW(..))) {
					continue; // fresh-leaf natives: constructing again makes new leaves, nothing shared with the holds
				}
				if op == NonAcq::Construct && specs[si].is_single() {
					continue;
				}
				for (policy, qw) in [(Policy::RP, false), (Policy::WP, true)] {
					if qw && !a.iter().any(|v| *v == 1) {
						continue; // a queued writer needs a read-held lock to wait on
					}
					cases.push(NaCase { spec: si, assign: a.clone(), holder: Holder::Foreign, op, policy, queued_writer: qw });
				}
				// the caller holds the target itself (every leaf) through the target's own guard / closure
				if a.iter().all(|v| *v == 2) || (info.sharable && !a.is_empty() && a.iter().all(|v| *v == 1)) || a.is_empty() {
					for h in [Holder::OwnGuard, Holder::OwnScoped] {
						cases.push(NaCase { spec: si, assign: a.clone(), holder: h, op, policy: Policy::RP, queued_writer: false });
					}
				}
				// held by the caller itself: the held leaves must be all-write or all-read (one guard)
				let nonfree: Vec<u8> = a.iter().copied().filter(|v| *v != 0).collect();
				if !nonfree.is_empty() && nonfree.iter().all(|v| *v == nonfree[0]) {
					let arena_only = info.leaves.iter().all(|l| *l < ARENA_TOTAL);
					if arena_only {
						for h in [Holder::SelfGuard, Holder::SelfScoped, Holder::SelfLeaked] {
							cases.push(NaCase { spec: si, assign: a.clone(), holder: h, op, policy: Policy::RP, queued_writer: false });
						}
					}
				}
			}
		}
	}
	struct Out {
		violations: Vec<Violation>,
		outcome: String,
		raw_ops: usize,
	}
	let outs = par_cases(&cases, |_, c| {
		let s = &specs[c.spec];
		let o = run_nonacq_case(s, c, false);
		let mut violations = o.violations;
		if o.outcome != "ok" {
			violations.push(Violation { prop: "C17", key: format!("nonacq-{}|{}|{:?}", o.outcome.split(':').next().unwrap(), s.shape_key(), c.op), detail: format!("{:?} on {} with leaf states {:?} held by {:?} ended with {}", c.op, s.describe(), c.assign, c.holder, o.outcome) });
		}
		Out { violations, outcome: o.outcome, raw_ops: o.value.unwrap_or(0) }
	});
	let mut nontrivial = BTreeSet::new();
	for (c, o) in cases.iter().zip(&outs) {
		rep.add("evaluations", 1);
		if o.raw_ops > 0 && c.assign.iter().any(|v| *v != 0) {
			nontrivial.insert((c.spec, c.assign.clone(), c.holder, c.op, c.queued_writer));
		}
		rep.add("raw_ops_issued_by_nonacquiring_ops", o.raw_ops as u64);
		for v in &o.violations {
			let mut v = v.clone();
			if v.prop == "C01" {
				// a self-wait inside a non-acquiring operation is this property's failure
				v.prop = "C17";
				v.key = format!("nonacq-self-wait|{}", v.key);
			}
			viol_to(&mut rep, &v, json!({"kind": "seq-nonacq", "spec": specs[c.spec], "assign": c.assign, "holder": c.holder, "op": c.op, "policy": c.policy, "queued_writer": c.queued_writer}));
		}
		let _ = &o.outcome;
	}
	rep.set("distinct_nontrivial", nontrivial.len() as u64);
	if let Some((c, o)) = cases.iter().zip(&outs).find(|(c, o)| c.holder == Holder::SelfGuard && o.raw_ops > 0 && c.assign.len() >= 2) {
		rep.sample(json!({"spec": specs[c.spec].describe(), "leaf_states": c.assign, "held_by": "the calling thread through a live guard", "operation": format!("{:?}", c.op), "raw_ops_issued(all transient try/unlock)": o.raw_ops}));
	}
	if let Some((c, o)) = cases.iter().zip(&outs).find(|(c, o)| c.queued_writer && o.raw_ops > 0) {
		rep.sample(json!({"spec": specs[c.spec].describe(), "leaf_states": c.assign, "held_by": "another thread, with a writer queued (writer-preferring policy)", "operation": format!("{:?}", c.op), "raw_ops_issued": o.raw_ops}));
	}
	owned_accessor_cases(&mut rep);
	poisoned_accessor_cases(&mut rep);
	debug_panic_sweep(&mut rep, tier == "thorough", "C17");
	// concurrent part: Debug while another thread is inside a section of the lock / kills the lock meanwhile, all
	// interleavings at raw-operation granularity; the caller's held set must be the same before and after the call
	let mut crep = Report::new("C17", tier, "model_checking");
	crate::conc::debug_families_into(&mut crep, tier == "thorough");
	for k in ["programs", "states", "transitions", "traces_validated_against_impl"] {
		rep.set(&format!("concurrent_{}", k), crep.get(k));
	}
	for v in crep.violations.drain(..).chain(crep.xrefs.drain(..)) {
		rep.violation(v);
	}
	rep.machinery.extend(crep.machinery);
	rep.set("rule", "every catalogue shape x every assignment of {free, read-held, write-held} to its leaves x holder in {another thread (RP; WP with a queued writer), the calling thread through a live guard / inside a running scoped closure / through a leaked guard} x operation in {Debug of the lock or collection, Debug of the live guard, is_poisoned+clear_poison, every checked/unchecked constructor}; plus child/iter/as_ref/get_mut/into_inner/into_child on native shapes. Oracle: no blocking raw-op kind is issued, the call returns, owner table unchanged. Non-trivial = the operation issued raw operations while some leaf was held");
	rep.finish()
}

fn leaf_spec(l: u32) -> Option<Spec> {
	use crate::world::*;
	Some(if l < M0 {
		Spec::R((l - R0) as usize)
	} else if l < PM0 {
		Spec::M((l - M0) as usize)
	} else if l < PR0 {
		Spec::PM((l - PM0) as usize)
	} else if l < OW0 {
		Spec::PR((l - PR0) as usize)
	} else if l < ARENA_LOCKS {
		Spec::OW(((l - OW0) as usize) / OWSZ)
	} else if l == PPM_LEAF {
		Spec::PPM
	} else if l == PPR_LEAF {
		Spec::PPR
	} else {
		return None;
	})
}

/// Accessors and consuming operations on concrete native types, with leaves held by a foreign thread.
fn owned_accessor_cases(rep: &mut Report) {
	use happylock::collection::{BoxedLockCollection, OwnedLockCollection, RefLockCollection, RetryingLockCollection};
	use crate::world::{reg_m, reg_r, M, R};
	let ops: Vec<&str> = vec!["trait_get_mut_over_held_mutex_members", "boxed_child_iter_asref", "ref_child_iter", "retry_child_iter_getmut_intoinner", "owned_getmut_intochild_intoinner", "boxed_into_child_into_inner", "poisonable_getmut_intoinner_intochild", "lock_getmut_intoinner"];
	let outs = par_cases(&ops, |_, op| {
		seq::case(Policy::WP, false, |w, ctl| {
			let a = w.arena;
			// fresh owned leaves ids 40.. registered on the fly
			let mut is_rw = w.is_rw.borrow().clone();
			while is_rw.len() < 48 {
				is_rw.push(true);
			}
			is_rw[44] = false;
			*w.is_rw.borrow_mut() = is_rw;
			let mut unit = w.unit.borrow().clone();
			unit.resize(48, 0);
			*w.unit.borrow_mut() = unit;
			ctl.init(w);
			for l in [0u32, 1, 2, 40, 41, 42, 43, 44] {
				ctl.prehold(l, if l % 2 == 0 { Mode::Excl } else { Mode::Shared });
			}
			ctl.queue_writer(1);
			let before = ctl.table_fp();
			rt::begin_call(CallKind::NonAcquiring, false, format!("accessors::{}", op));
			match *op {
				"trait_get_mut_over_held_mutex_members" => {
					// get_mut through every wrapper, over mutex / rwlock members whose raw lock is held (leaf 44 and 40..43 are pre-held)
					use happylock::lockable::LockableGetMut;
					let mut a = OwnedLockCollection::new(vec![reg_m(44)]);
					let _ = a.get_mut().len();
					std::mem::forget(a);
					let mut b = RetryingLockCollection::new([reg_m(44), reg_m(44)]);
					let _ = b.get_mut().len();
					std::mem::forget(b);
					let mut c = happylock::Poisonable::new(reg_m(44));
					let _ = c.get_mut().is_ok();
					std::mem::forget(c);
					let mut d = (reg_m(44), reg_r(43), vec![reg_m(44)], [reg_r(42)], vec![reg_r(41)].into_boxed_slice());
					let _ = LockableGetMut::get_mut(&mut d);
					std::mem::forget(d);
					let mut e_ = OwnedLockCollection::new((happylock::Poisonable::new(reg_m(44)), RetryingLockCollection::new(vec![reg_m(44)])));
					let _ = e_.get_mut();
					std::mem::forget(e_);
					let mut f = reg_m(44);
					let _ = LockableGetMut::get_mut(&mut f).leaf;
					let mut g_ = reg_r(40);
					let _ = LockableGetMut::get_mut(&mut g_).leaf;
					let mut h = &mut f;
					let _ = LockableGetMut::get_mut(&mut h).leaf;
				}
				"boxed_child_iter_asref" => {
					let c = BoxedLockCollection::try_new(vec![&a.r[0], &a.r[1], &a.r[2]]).unwrap();
					let _ = c.child().len();
					let n = c.iter().count() + (&c).into_iter().count();
					let s: &[&R] = c.as_ref();
					assert_eq!(n, 6);
					assert_eq!(s.len(), 3);
				}
				"ref_child_iter" => {
					let v = vec![&a.r[2], &a.r[0], &a.r[1]];
					let c = RefLockCollection::try_new(&v).unwrap();
					let _ = c.child().len();
					assert_eq!(c.iter().count() + (&c).into_iter().count(), 6);
					let s: &[&R] = c.as_ref();
					assert_eq!(s.len(), 3);
				}
				"retry_child_iter_getmut_intoinner" => {
					let mut c = RetryingLockCollection::new(vec![reg_r(40), reg_r(41)]);
					let _ = c.child().len();
					assert_eq!(c.iter().count(), 2);
					assert_eq!(c.iter_mut().count(), 2);
					let _ = c.child_mut().len();
					let _ = c.get_mut().len();
					let s: &[R] = c.as_ref();
					assert_eq!(s.len(), 2);
					let inner = c.into_inner();
					assert_eq!(inner.len(), 2);
					let c2 = RetryingLockCollection::new(vec![reg_r(42)]);
					assert_eq!(c2.into_child().len(), 1);
					let c3 = RetryingLockCollection::new(vec![reg_r(43)]);
					assert_eq!(c3.into_iter().count(), 1);
				}
				"owned_getmut_intochild_intoinner" => {
					let mut c = OwnedLockCollection::new(vec![reg_r(40), reg_r(41)]);
					let _ = c.get_mut().len();
					let _ = c.child_mut().len();
					let m: &mut Vec<R> = c.as_mut();
					assert_eq!(m.len(), 2);
					c.extend(vec![reg_r(42)]);
					assert_eq!(c.into_child().len(), 3);
					let c2 = OwnedLockCollection::new((reg_m(44), reg_r(43)));
					let (x, y) = c2.into_inner();
					assert_eq!((x.leaf, y.leaf), (44, 43));
				}
				"boxed_into_child_into_inner" => {
					let c = BoxedLockCollection::new(vec![reg_r(40), reg_r(41)]);
					assert_eq!(c.into_child().len(), 2);
					let c = BoxedLockCollection::new(vec![reg_r(42), reg_r(43)]);
					assert_eq!(c.into_inner().len(), 2);
					let c = BoxedLockCollection::new(vec![reg_r(40)]);
					assert_eq!(c.into_iter().count(), 1);
					let c: BoxedLockCollection<Vec<M>> = [reg_m(44)].into_iter().collect();
					assert_eq!(c.into_child().len(), 1);
				}
				"poisonable_getmut_intoinner_intochild" => {
					let mut p = happylock::Poisonable::new(reg_r(40));
					assert!(p.get_mut().is_ok());
					assert!(p.child_mut().is_ok());
					assert!(!p.is_poisoned());
					assert!(p.into_inner().is_ok());
					let p = happylock::Poisonable::new(reg_m(44));
					assert!(p.into_child().is_ok());
				}
				"lock_getmut_intoinner" => {
					let mut r = reg_r(40);
					let mut m = reg_m(44);
					let _ = r.get_mut().leaf + m.get_mut().leaf;
					let _: &mut crate::world::Payload = r.as_mut();
					let _: &mut crate::world::Payload = m.as_mut();
					assert_eq!(r.into_inner().leaf, 40);
					assert_eq!(m.into_inner().leaf, 44);
				}
				_ => unreachable!(),
			}
			rt::end_call();
			if ctl.table_fp() != before {
				rt::violation("C17", format!("nonacq-disturbs|accessors::{}", op), format!("accessors {} changed the hold state: {}", op, ctl.table_string()));
			}
		})
	});
	for (op, o) in ops.iter().zip(outs) {
		rep.add("evaluations", 1);
		rep.add("accessor_groups", 1);
		for v in &o.violations {
			viol_to(rep, v, json!({"kind": "seq-accessors", "op": op}));
		}
		if o.outcome != "ok" {
			rep.violation(Viol { prop: "C17".into(), key: format!("nonacq-{}|accessors::{}", o.outcome.split(':').next().unwrap(), op), detail: format!("accessor group {} ended with {}", op, o.outcome), replay: json!({"kind": "seq-accessors", "op": op}) });
		}
	}
	let _ = (M0, PR0);
}

/// get_mut / child_mut / into_inner / into_child / poison queries / Debug on a Poisonable that really is
/// poisoned while its lock is still held: by a foreign thread, or by the caller through a leaked guard
/// (which ends the borrow, so `&mut` access and consuming calls compile).
fn poisoned_accessor_cases(rep: &mut Report) {
	use crate::world::{reg_m, reg_r, M, R};
	use happylock::collection::{OwnedLockCollection, RetryingLockCollection};
	use happylock::Poisonable;
	use std::panic::{catch_unwind, resume_unwind, AssertUnwindSafe};
	const KINDS: [&str; 4] = ["Poisonable<Mutex>", "Poisonable<RwLock>", "Poisonable<Owned<(Mutex,RwLock)>>", "Poisonable<Retrying<Vec<RwLock>>>"];
	const HOLDS: [&str; 4] = ["foreign-write", "foreign-read", "self-leaked-write", "self-leaked-read"];
	const OPS: [&str; 6] = ["get_mut", "child_mut", "into_inner", "into_child", "is_poisoned+clear_poison", "Debug"];
	let mut cases = vec![];
	for k in 0..KINDS.len() {
		for h in 0..HOLDS.len() {
			if (h == 1 || h == 3) && k != 1 && k != 3 {
				continue; // shared holds need an all-RwLock target
			}
			for o in 0..OPS.len() {
				cases.push((k, h, o));
			}
		}
	}
	let outs = par_cases(&cases, |_, &(k, h, o)| {
		seq::case(Policy::WP, false, |w, ctl| {
			let mut is_rw = w.is_rw.borrow().clone();
			while is_rw.len() < 48 {
				is_rw.push(true);
			}
			is_rw[44] = false;
			*w.is_rw.borrow_mut() = is_rw;
			let mut unit = w.unit.borrow().clone();
			unit.resize(48, 0);
			*w.unit.borrow_mut() = unit;
			ctl.init(w);
			macro_rules! go {
				($p:expr, $leaves:expr) => {{
					let mut p = $p;
					let leaves: Vec<u32> = $leaves;
					// poison it for real: a guard dropped by a panic
					let key = ThreadKey::get().expect("clean");
					rt::begin_call(CallKind::Acquire, false, "poison-setup".into());
					let r = catch_unwind(AssertUnwindSafe(|| {
						let _g = p.lock(key);
						resume_unwind(Box::new(rt::UserPanic(7777)));
					}));
					rt::end_call();
					assert!(r.is_err());
					// (whether the flag really is set is C10's business; nothing below depends on it)
					match h {
						0 => leaves.iter().for_each(|l| ctl.prehold(*l, Mode::Excl)),
						1 => leaves.iter().for_each(|l| {
							ctl.prehold(*l, Mode::Shared);
							ctl.queue_writer(*l);
						}),
						_ => {
							let key = ThreadKey::get().expect("clean");
							rt::begin_call(CallKind::Acquire, false, "holder".into());
							if h == 2 {
								std::mem::forget(p.lock(key));
							} else {
								p.read_dyn(key);
							}
							rt::end_call();
						}
					}
					let before = ctl.table_fp();
					ctl.arm_counting();
					rt::begin_call(CallKind::NonAcquiring, false, format!("{}::{} (poisoned, {})", KINDS[k], OPS[o], HOLDS[h]));
					match o {
						0 => drop(p.get_mut().is_err()),
						1 => drop(p.child_mut().is_err()),
						2 => std::mem::forget(p.into_inner()),
						3 => std::mem::forget(p.into_child()),
						4 => {
							let _ = p.is_poisoned();
							p.clear_poison();
							let _ = p.is_poisoned();
							std::mem::forget(p);
						}
						_ => {
							assert!(!format!("{:?}", p).is_empty());
							std::mem::forget(p);
						}
					}
					rt::end_call();
					let n = ctl.disarm();
					if ctl.table_fp() != before {
						rt::violation("C17", format!("nonacq-disturbs|{}::{}", KINDS[k], OPS[o]), format!("{} on a poisoned {} ({}) changed the hold state: {}", OPS[o], KINDS[k], HOLDS[h], ctl.table_string()));
					}
					n
				}};
			}
			trait ReadDyn {
				fn read_dyn(&self, key: ThreadKey);
			}
			impl ReadDyn for Poisonable<R> {
				fn read_dyn(&self, key: ThreadKey) {
					std::mem::forget(self.read(key));
				}
			}
			impl ReadDyn for Poisonable<RetryingLockCollection<Vec<R>>> {
				fn read_dyn(&self, key: ThreadKey) {
					std::mem::forget(self.read(key));
				}
			}
			impl ReadDyn for Poisonable<M> {
				fn read_dyn(&self, _: ThreadKey) {
					unreachable!()
				}
			}
			impl ReadDyn for Poisonable<OwnedLockCollection<(M, R)>> {
				fn read_dyn(&self, _: ThreadKey) {
					unreachable!()
				}
			}
			match k {
				0 => go!(Poisonable::new(reg_m(44)), vec![44]),
				1 => go!(Poisonable::new(reg_r(40)), vec![40]),
				2 => go!(Poisonable::new(OwnedLockCollection::new((reg_m(44), reg_r(41)))), vec![44, 41]),
				_ => go!(Poisonable::new(RetryingLockCollection::new(vec![reg_r(42), reg_r(43)])), vec![42, 43]),
			}
		})
	});
	for (&(k, h, o), out) in cases.iter().zip(outs) {
		rep.add("evaluations", 1);
		rep.add("poisoned_accessor_cases", 1);
		if out.value.unwrap_or(0) > 0 {
			rep.add("poisoned_accessor_cases_issuing_raw_ops", 1);
		}
		let replay = json!({"kind": "seq-poisoned-accessors", "target": KINDS[k], "hold": HOLDS[h], "op": OPS[o]});
		for v in &out.violations {
			viol_to(rep, v, replay.clone());
		}
		if out.outcome != "ok" {
			rep.violation(Viol { prop: "C17".into(), key: format!("nonacq-{}|{}::{}", out.outcome.split(':').next().unwrap(), KINDS[k], OPS[o]), detail: format!("{} on a poisoned {} ({}) ended with {}", OPS[o], KINDS[k], HOLDS[h], out.outcome), replay });
		}
	}
}

// ------------------------------------------------------------------------------------------
// User code inside Debug: the payload's own `fmt` panics while a lock / collection / guard is being formatted
// (C11: a panic in user code never leaks a lock; C17: Debug leaves the hold state as it found it)
// ------------------------------------------------------------------------------------------

pub fn debug_panic_sweep(rep: &mut Report, thorough: bool, prop: &'static str) {
	let mut specs = vec![Spec::R(0), Spec::M(0), Spec::PR(0), Spec::PM(0), Spec::OW(0), Spec::PPR];
	for k in KINDS {
		specs.push(Spec::Coll(k, vec![Spec::R(1), Spec::R(0)]));
		specs.push(Spec::Coll(k, vec![Spec::M(0), Spec::R(0)]));
		specs.push(Spec::Pois(Box::new(Spec::Coll(k, vec![Spec::R(1), Spec::R(0)]))));
		if thorough {
			specs.push(Spec::Coll(k, vec![Spec::Coll(Kind::Retry, vec![Spec::R(2), Spec::R(0)]), Spec::R(1)]));
			specs.push(Spec::Coll(k, vec![Spec::PR(0), Spec::R(1), Spec::OW(0)]));
		}
	}
	specs.push(Spec::Native(Native::OwnedTupMR));
	specs.push(Spec::Native(Native::RetryOwnedR(2)));
	specs.push(Spec::Native(Native::PoisOwned(2)));
	// who holds what while the formatting panics: 0 nothing, 1 another thread read-holds every rwlock leaf (a writer is
	// queued too under WP), 2 the caller's own read guard of the target is alive (and is formatted as well), 3 the
	// caller's own write guard is alive
	let mut cases = vec![];
	for (si, s) in specs.iter().enumerate() {
		for hold in 0..4u8 {
			if hold == 2 && !s.sharable() {
				continue;
			}
			cases.push((si, hold));
		}
	}
	let outs = par_cases(&cases, |_, &(si, hold)| {
		let s = &specs[si];
		seq::case(if hold == 1 { Policy::WP } else { Policy::RP }, false, |w, ctl| {
			let t = w.build(s).expect("duplicate-free");
			ctl.init(w);
			if hold == 1 {
				let is_rw = w.is_rw.borrow().clone();
				for l in &t.leaves {
					if is_rw[*l as usize] {
						ctl.prehold(*l, Mode::Shared);
					}
				}
			}
			let guard = match hold {
				2 => Some(t.coll.read(ThreadKey::get().expect("clean"))),
				3 => Some(t.coll.lock(ThreadKey::get().expect("clean"))),
				_ => None,
			};
			let before = ctl.table_fp();
			let what = format!("{}::Debug (payload fmt panics) #{}", t.shape, t.desc);
			rt::begin_call(CallKind::NonAcquiring, false, what.clone());
			crate::world::FMT_PANIC.with(|p| p.set(true));
			let r = std::panic::catch_unwind(std::panic::AssertUnwindSafe(|| t.coll.debug()));
			let r2 = guard.as_ref().map(|g| std::panic::catch_unwind(std::panic::AssertUnwindSafe(|| g.debug())));
			crate::world::FMT_PANIC.with(|p| p.set(false));
			rt::end_call();
			for r in [Some(r), r2].into_iter().flatten() {
				if let Err(p) = r {
					if p.downcast_ref::<rt::UserPanic>().is_none() {
						rt::violation(prop, format!("debug-panic-replaced|{}", s.shape_key()), format!("`{}`: the payload's panic was replaced by {}", what, rt::classify_panic(&p)));
					}
				}
			}
			if ctl.table_fp() != before {
				rt::violation(prop, format!("debug-panic-leaks|{}", s.shape_key()), format!("after the payload's fmt panicked inside `{}` (holder pattern {}) the hold state changed to: {}", what, hold, ctl.table_string()));
			}
			if let Some(g) = guard {
				drop(g);
				let held = ctl.exec.lock().held(0);
				if !held.is_empty() {
					rt::violation(prop, format!("debug-panic-leaks|{}", s.shape_key()), format!("after `{}` and dropping the caller's guard the caller still holds {:?}", what, held));
				}
			}
			if !seq::key_clean() {
				rt::violation(prop, format!("debug-panic-key-lost|{}", s.shape_key()), format!("after `{}` the thread's key is not obtainable", what));
			}
		})
	});
	for (&(si, hold), o) in cases.iter().zip(&outs) {
		rep.add("debug_with_panicking_payload_cases", 1);
		let replay = json!({"kind": "seq-debug-panic", "spec": specs[si], "holder_pattern": hold});
		for v in &o.violations {
			if v.prop == prop {
				viol_to(rep, v, replay.clone());
			}
		}
		if o.outcome != "ok" {
			rep.violation(Viol { prop: prop.into(), key: format!("debug-panic-{}|{}", o.outcome.split(':').next().unwrap(), specs[si].shape_key()), detail: format!("Debug with a panicking payload on {} (holder pattern {}) ended with {}", specs[si].describe(), hold, o.outcome), replay });
		}
	}
}

// ------------------------------------------------------------------------------------------
// C11, "at any point": the panicking acquisition is made by a destructor that runs while the thread is
// already unwinding from an earlier panic (std::thread::panicking() is true throughout)
// ------------------------------------------------------------------------------------------

pub fn c11_nested_unwind(rep: &mut Report, thorough: bool) {
	nested_unwind_sweep(rep, thorough, "C11")
}

/// The same sweep reported under `prop`: the facts it checks (an unwound scoped call has released everything, exactly
/// once, and the key is usable again) are clauses of C03 and C05 as well as of C11.
pub fn nested_unwind_sweep(rep: &mut Report, thorough: bool, prop: &'static str) {
	let mut specs = vec![Spec::R(0), Spec::M(0), Spec::PR(0), Spec::PM(0), Spec::OW(0)];
	for k in KINDS {
		specs.push(Spec::Coll(k, vec![Spec::R(1), Spec::R(0)]));
		specs.push(Spec::Coll(k, vec![Spec::M(0), Spec::R(0)]));
		specs.push(Spec::Pois(Box::new(Spec::Coll(k, vec![Spec::R(1), Spec::R(0)]))));
		if thorough {
			specs.push(Spec::Coll(k, vec![Spec::Coll(Kind::Retry, vec![Spec::R(2), Spec::R(0)]), Spec::R(1)]));
			specs.push(Spec::Coll(k, vec![Spec::PR(0), Spec::R(1), Spec::OW(0)]));
		}
	}
	specs.push(Spec::Native(Native::OwnedTupMR));
	specs.push(Spec::Native(Native::MutRefs(0, 2)));
	struct Case {
		spec: usize,
		write: bool,
		flavour: Flavour,
		/// panic inside the nested acquisition (else it completes normally inside the destructor)
		panic: bool,
	}
	let mut cases = vec![];
	for (si, s) in specs.iter().enumerate() {
		for write in [true, false] {
			if !write && !s.sharable() {
				continue;
			}
			for flavour in FLAVOURS {
				for panic in [true, false] {
					cases.push(Case { spec: si, write, flavour, panic });
				}
			}
		}
	}
	let outs = par_cases(&cases, |_, c| {
		let o = run_nested_unwind_case(&specs[c.spec], c.write, c.flavour, c.panic, false);
		(o.violations, o.outcome)
	});
	for (c, (vs, outcome)) in cases.iter().zip(&outs) {
		rep.add("nested_unwind_cases", 1);
		let replay = json!({"kind": "seq-nested-unwind", "spec": specs[c.spec], "write": c.write, "flavour": c.flavour, "panic_in_nested_call": c.panic});
		for v in vs {
			let mut v = v.clone();
			if v.prop == "C05" && prop != "C05" {
				v.key = format!("after-user-panic:C05:{}", v.key);
				v.prop = "C11";
			}
			if v.prop == "C11" && prop != "C11" {
				v.key = format!("nested-unwind:C11:{}", v.key);
				v.prop = prop;
			}
			if v.prop == prop {
				viol_to(rep, &v, replay.clone());
			}
		}
		if outcome != "ok" {
			rep.violation(Viol { prop: prop.into(), key: format!("nested-unwind-{}|{}", outcome.split(':').next().unwrap(), specs[c.spec].shape_key()), detail: format!("nested-unwind case {:?}/{}/{} ended with {}", specs[c.spec].describe(), c.flavour.api(c.write), c.panic, outcome), replay });
		}
	}
}

/// One nested-unwind case (also used by `replay`).
pub fn run_nested_unwind_case(s: &Spec, write: bool, flavour: Flavour, panic: bool, keep_trace: bool) -> seq::SeqOut<()> {
	seq::case(Policy::RP, keep_trace, |w, ctl| {
		let t = w.build(s).expect("duplicate-free");
		ctl.init(w);
		struct InDrop<'a, 'w> {
			t: &'a Target<'w>,
			write: bool,
			flavour: Flavour,
			panic: bool,
			ran: &'a std::cell::Cell<u8>,
		}
		impl Drop for InDrop<'_, '_> {
			fn drop(&mut self) {
				if !std::thread::panicking() {
					return;
				}
				let Some(key) = ThreadKey::get() else {
					self.ran.set(2);
					return;
				};
				let body = if self.panic { Body::PANIC } else { Body::TOUCH };
				let r = std::panic::catch_unwind(std::panic::AssertUnwindSafe(|| interp::acquire(self.t, self.write, self.flavour, body, key, 4242)));
				self.ran.set(if r.is_ok() { 1 } else { 3 });
			}
		}
		let ran = std::cell::Cell::new(0u8);
		let r = std::panic::catch_unwind(std::panic::AssertUnwindSafe(|| {
			let _d = InDrop { t: &t, write, flavour, panic, ran: &ran };
			std::panic::resume_unwind(Box::new(rt::UserPanic(1)));
		}));
		rt::end_call();
		assert!(r.is_err());
		let what = format!("{}::{} #{}", t.shape, flavour.api(write), t.desc);
		match ran.get() {
			1 => {}
			2 => rt::violation("C11", format!("nested-unwind-no-key|{}", rt::what_key(&what)), format!("inside a destructor during unwinding the thread's key is not obtainable before `{}`", what)),
			x => rt::violation("C11", format!("nested-unwind-escaped|{}", rt::what_key(&what)), format!("`{}` made by a destructor during unwinding ended abnormally (code {})", what, x)),
		}
		let held = ctl.exec.lock().held(0);
		if !held.is_empty() {
			rt::violation("C11", format!("leak-after-nested-unwind|{}", rt::what_key(&what)), format!("`{}` ran{} inside a destructor while the thread was unwinding from an earlier panic; afterwards the thread still holds {:?}", what, if panic { " and panicked" } else { "" }, held));
		}
		if !seq::key_clean() {
			rt::violation("C11", format!("key-lost-after-nested-unwind|{}", rt::what_key(&what)), format!("after `{}` inside a destructor during unwinding the thread's key is not obtainable", what));
		}
	})
}

/// One C17 case (also used by `replay`).
pub fn run_nonacq_case(s: &Spec, c: &NaCase, keep_trace: bool) -> seq::SeqOut<usize> {
seq::case(c.policy, keep_trace, |w, ctl| {
		let t = w.build(s).expect("probed");
		ctl.init(w);
		if c.op == NonAcq::PoisonQueriesPoisoned {
			poison_everything(&t, w);
		}
		let held_leaves: Vec<(u32, u8)> = t.leaves.iter().copied().zip(c.assign.iter().copied()).filter(|(_, v)| *v != 0).collect();
		let check = |ctl: &SeqCtl, before: u64| {
			let after = ctl.table_fp();
			if after != before {
				rt::violation("C17", format!("nonacq-disturbs|{}|{:?}", s.shape_key(), c.op), format!("{:?} on {} changed the hold state to: {}", c.op, s.describe(), ctl.table_string()));
			}
		};
		match c.holder {
			Holder::Foreign => {
				apply_assignment(ctl, &t.leaves, &c.assign);
				if c.queued_writer {
					for (l, v) in &held_leaves {
						if *v == 1 {
							ctl.queue_writer(*l);
						}
					}
				}
				let before = ctl.table_fp();
				ctl.arm_counting();
				run_nonacq(s, Some(&t), w, c.op);
				let n = ctl.disarm();
				check(ctl, before);
				n
			}
			Holder::OwnGuard | Holder::OwnScoped => {
				let write = c.assign.iter().all(|v| *v == 2);
				let key = ThreadKey::get().expect("clean");
				if c.holder == Holder::OwnGuard {
					let g = if write { t.coll.lock(key) } else { t.coll.read(key) };
					let before = ctl.table_fp();
					ctl.arm_counting();
					run_nonacq(s, Some(&t), w, c.op);
					rt::begin_call(CallKind::NonAcquiring, false, format!("{}::Debug(guard) #{}", t.shape, t.desc));
					let d = g.debug();
					rt::end_call();
					assert!(!d.is_empty());
					let n = ctl.disarm();
					check(ctl, before);
					drop(g);
					n
				} else {
					let mut cnt = 0;
					let mut f = |_v: &dyn crate::world::Visit| {
						let before = ctl.table_fp();
						ctl.arm_counting();
						rt::set_call_kind(CallKind::Body);
						run_nonacq(s, Some(&t), w, c.op);
						cnt = ctl.disarm();
						check(ctl, before);
						rt::begin_call(CallKind::Release, false, "holder".into());
					};
					rt::begin_call(CallKind::Acquire, false, "holder".into());
					t.coll.scoped(write, false, crate::world::KeyArg::Owned(key), &mut f);
					rt::end_call();
					cnt
				}
			}
			_ => {
				// the caller itself holds the non-free leaves through a holder collection (arena leaves only)
				let write = held_leaves[0].1 == 2;
				let members: Vec<Spec> = held_leaves.iter().filter_map(|(l, _)| leaf_spec(*l)).collect();
				let mut uniq = vec![];
				for m in members {
					if !uniq.contains(&m) {
						uniq.push(m);
					}
				}
				let hs = if uniq.iter().all(|m| m.sharable()) || write { Spec::Coll(Kind::Boxed, uniq) } else { return 0 };
				if !write && !hs.sharable() {
					return 0;
				}
				let Some(ht) = w.build(&hs) else { return 0 };
				ctl.init(w);
				// owned units hold all their leaves: skip assignments that split a unit
				let hl: BTreeSet<u32> = ht.leaves.iter().copied().collect();
				let want: BTreeSet<u32> = held_leaves.iter().map(|(l, _)| *l).collect();
				if hl != want {
					return 0;
				}
				let key = ThreadKey::get().expect("clean");
				let n;
				match c.holder {
					Holder::SelfGuard | Holder::SelfLeaked => {
						let g = if write { ht.coll.lock(key) } else { ht.coll.read(key) };
						let before = ctl.table_fp();
						ctl.arm_counting();
						run_nonacq(s, Some(&t), w, c.op);
						// Debug of the live guard itself is a non-acquiring operation too
						rt::begin_call(CallKind::NonAcquiring, false, format!("{}::Debug(guard) #{}", ht.shape, ht.desc));
						let d = g.debug();
						rt::end_call();
						assert!(!d.is_empty());
						n = ctl.disarm();
						check(ctl, before);
						if c.holder == Holder::SelfLeaked {
							std::mem::forget(g);
						} else {
							drop(g);
						}
					}
					_ => {
						let mut cnt = 0;
						let mut f = |_v: &dyn crate::world::Visit| {
							let before = ctl.table_fp();
							ctl.arm_counting();
							rt::set_call_kind(CallKind::Body);
							run_nonacq(s, Some(&t), w, c.op);
							cnt = ctl.disarm();
							check(ctl, before);
							rt::begin_call(CallKind::Release, false, "holder".into());
						};
						rt::begin_call(CallKind::Acquire, false, "holder".into());
						ht.coll.scoped(write, false, crate::world::KeyArg::Owned(key), &mut f);
						rt::end_call();
						n = cnt;
					}
				}
				n
			}
		}
	})
}
