//! Programs (fixed per-thread step lists) and their interpreter, which drives the
//! public happylock API and evaluates the per-call oracles (C02 iii/iv, C03 b/c, C04, C05 end
//! state, C06 probe, C11).

use std::panic::{catch_unwind, resume_unwind, AssertUnwindSafe};
use std::sync::atomic::Ordering;

use happylock::ThreadKey;
use serde::{Deserialize, Serialize};

use crate::rt::{self, CallKind, Mode, Policy, UserPanic};
use crate::spec::{Spec, Target};
use crate::world::{Held, KeyArg, Scoped, Visit};

#[derive(Clone, Copy, Debug, PartialEq, Eq, Hash, PartialOrd, Ord, Serialize, Deserialize)]
pub enum Flavour {
	/// lock()/read(), use, drop guard
	Guard,
	/// lock()/read(), use, X::unlock(guard)
	GuardUnlock,
	/// try_lock()/try_read(), use if ok, drop guard
	Try,
	ScopedLent,
	ScopedOwned,
	ScopedTryLent,
	ScopedTryOwned,
}
pub const FLAVOURS: [Flavour; 7] = [Flavour::Guard, Flavour::GuardUnlock, Flavour::Try, Flavour::ScopedLent, Flavour::ScopedOwned, Flavour::ScopedTryLent, Flavour::ScopedTryOwned];
impl Flavour {
	pub fn is_try(&self) -> bool {
		matches!(self, Flavour::Try | Flavour::ScopedTryLent | Flavour::ScopedTryOwned)
	}
	pub fn is_scoped(&self) -> bool {
		matches!(self, Flavour::ScopedLent | Flavour::ScopedOwned | Flavour::ScopedTryLent | Flavour::ScopedTryOwned)
	}
	pub fn lent(&self) -> bool {
		matches!(self, Flavour::ScopedLent | Flavour::ScopedTryLent)
	}
	pub fn api(&self, write: bool) -> &'static str {
		match (self, write) {
			(Flavour::Guard, true) => "lock+drop",
			(Flavour::Guard, false) => "read+drop",
			(Flavour::GuardUnlock, true) => "lock+unlock",
			(Flavour::GuardUnlock, false) => "read+unlock_read",
			(Flavour::Try, true) => "try_lock",
			(Flavour::Try, false) => "try_read",
			(Flavour::ScopedLent, true) => "scoped_lock(&mut key)",
			(Flavour::ScopedLent, false) => "scoped_read(&mut key)",
			(Flavour::ScopedOwned, true) => "scoped_lock(key)",
			(Flavour::ScopedOwned, false) => "scoped_read(key)",
			(Flavour::ScopedTryLent, true) => "scoped_try_lock(&mut key)",
			(Flavour::ScopedTryLent, false) => "scoped_try_read(&mut key)",
			(Flavour::ScopedTryOwned, true) => "scoped_try_lock(key)",
			(Flavour::ScopedTryOwned, false) => "scoped_try_read(key)",
		}
	}
}

#[derive(Clone, Copy, Debug, PartialEq, Eq, Hash, PartialOrd, Ord, Serialize, Deserialize)]
pub struct Body {
	/// read (and, in exclusive sections, increment) every payload
	pub touch: bool,
	/// scheduling point in the middle of the section
	pub yield_mid: bool,
	/// panic at the end of the section (with the guard alive / inside the closure)
	pub panic: bool,
	/// call clear_poison on the target itself inside the section (the holder "repairs" the data)
	#[serde(default)]
	pub clear: bool,
	/// inside the section, ask for the thread's key again (twice); if one is handed out although the
	/// section's own key is alive, use it for a blocking acquisition of the same target
	#[serde(default)]
	pub rekey: bool,
}
impl Body {
	pub const NONE: Body = Body { touch: false, yield_mid: false, panic: false, clear: false, rekey: false };
	pub const TOUCH: Body = Body { touch: true, yield_mid: true, panic: false, clear: false, rekey: false };
	pub const PANIC: Body = Body { touch: true, yield_mid: false, panic: true, clear: false, rekey: false };
	pub const CLEAR: Body = Body { touch: true, yield_mid: false, panic: false, clear: true, rekey: false };
	pub const REKEY: Body = Body { touch: true, yield_mid: false, panic: false, clear: false, rekey: true };
}

#[derive(Clone, Debug, PartialEq, Eq, Hash, PartialOrd, Ord, Serialize, Deserialize)]
pub enum Step {
	Acq { target: usize, write: bool, flavour: Flavour, body: Body },
	IsPoisoned(usize),
	ClearPoison(usize),
	Debug(usize),
	/// try-acquire the target while the thread's next raw try operation panics (kills that lock)
	FaultyTry { target: usize, write: bool },
	/// `RawLock::poison` on the target (safe public API): its locks refuse every later acquisition
	Kill(usize),
}

#[derive(Clone, Debug, Serialize, Deserialize)]
pub struct Program {
	pub specs: Vec<Spec>,
	pub threads: Vec<Vec<Step>>,
	pub policy: Policy,
	pub name: String,
	/// non-empty: the threads are menu-driven (see menu.rs) and `threads` only fixes their number
	#[serde(default)]
	pub menu: Vec<crate::menu::MenuThread>,
}
impl Program {
	pub fn describe(&self) -> String {
		let mut s = format!("{} [{:?}] ", self.name, self.policy);
		for (i, t) in self.threads.iter().enumerate() {
			s += &format!("T{}:", i);
			for st in t {
				match st {
					Step::Acq { target, write, flavour, body } => {
						s += &format!(" {}.{}{}", self.specs[*target].describe(), flavour.api(*write), if body.panic { "!panic" } else { "" });
					}
					Step::IsPoisoned(t) => s += &format!(" {}.is_poisoned", self.specs[*t].describe()),
					Step::ClearPoison(t) => s += &format!(" {}.clear_poison", self.specs[*t].describe()),
					Step::Debug(t) => s += &format!(" {}.debug", self.specs[*t].describe()),
					Step::FaultyTry { target, write } => s += &format!(" {}.{}!raw-fault", self.specs[*target].describe(), Flavour::Try.api(*write)),
					Step::Kill(t) => s += &format!(" {}.poison()", self.specs[*t].describe()),
				}
				s += ";";
			}
			s += " ";
		}
		s
	}
}

pub fn what(t: &Target<'_>, api: &str) -> String {
	format!("{}::{} #{}", t.shape, api, t.desc)
}

/// Compare the caller's held set with the target's leaves (C04).
fn check_acquired(t: &Target<'_>, write: bool, w: &str) {
	let mut held = rt::held_now();
	held.sort_by_key(|h| h.0);
	let mut want: Vec<(u32, Mode)> = t.leaves.iter().map(|l| (*l, if write { Mode::Excl } else { Mode::Shared })).collect();
	want.sort_by_key(|h| h.0);
	// "each exactly once": a leaf the caller holds twice (a shared lock taken twice through a collection that reaches it
	// by two routes) is not what the caller asked for, even if the target lists it twice
	for w2 in held.windows(2) {
		if w2[0].0 == w2[1].0 {
			rt::violation("C04", format!("held-twice|{}", rt::what_key(w)), format!("after `{}` the caller holds L{} more than once: {:?}", w, w2[0].0, held));
			break;
		}
	}
	// Mutex leaves are always exclusive
	if held != want {
		rt::violation("C04", format!("coverage|{}", rt::what_key(w)), format!("after `{}` the caller holds {:?} but the target's leaves are {:?}", w, held, want));
	}
}
fn check_released(w: &str, prop: &'static str, tag: &str) {
	let held = rt::held_now();
	if !held.is_empty() {
		rt::violation(prop, format!("{}|{}", tag, rt::what_key(w)), format!("after `{}` ({}) the caller still holds {:?}", w, tag, held));
	}
}

struct SlotInfo {
	leaf: u32,
	excl: bool,
	p: *const crate::world::Payload,
	poison: Vec<bool>,
}

fn collect(v: &mut dyn FnMut(&mut crate::world::VisitFn<'_>)) -> Vec<SlotInfo> {
	let mut slots = vec![];
	v(&mut |p, excl, poison| slots.push(SlotInfo { leaf: p.leaf, excl, p: p as *const _, poison: poison.to_vec() }));
	slots
}

/// The critical section.
fn run_section(t: &Target<'_>, write: bool, body: Body, w: &str, slots: Vec<SlotInfo>, panic_id: u32) {
	// position / routing check (C02 iii)
	let got: Vec<u32> = slots.iter().map(|s| s.leaf).collect();
	if got != t.leaves {
		rt::violation("C02", format!("misrouted|{}", rt::what_key(w)), format!("`{}` exposes payloads of leaves {:?} but the declared members are {:?}", w, got, t.leaves));
	}
	for s in &slots {
		if s.excl != write {
			rt::violation("C02", format!("wrong-access|{}", rt::what_key(w)), format!("`{}` hands out {} access to L{} for a {} acquisition", w, if s.excl { "exclusive" } else { "shared" }, s.leaf, if write { "write" } else { "read" }));
		}
	}
	{
		let view: Vec<(u32, Vec<bool>)> = slots.iter().map(|s| (s.leaf, s.poison.clone())).collect();
		if got == t.leaves {
			crate::menu::check_poison_view(t, t.index, rt::what_key(w).split("::").nth(1).unwrap_or(""), &view);
		}
	}
	// C02 iv: everything held at entry
	check_all_held(t, write, w, "closure-entry");
	let mut reads = vec![];
	if body.touch {
		for s in &slots {
			let v = unsafe { (*s.p).val.load(Ordering::Relaxed) };
			rt::access(s.leaf, false, v, 0, w);
			reads.push(v);
		}
	}
	if body.yield_mid {
		rt::yield_point(1);
	}
	if body.touch {
		for (i, s) in slots.iter().enumerate() {
			if write {
				rt::access(s.leaf, true, reads[i], reads[i] + 1, w);
				unsafe { (*s.p).val.store(reads[i] + 1, Ordering::Relaxed) };
			} else {
				let v = unsafe { (*s.p).val.load(Ordering::Relaxed) };
				rt::access(s.leaf, false, v, 0, w);
				if v != reads[i] {
					rt::violation("C02", format!("changed-under-read|{}", rt::what_key(w)), format!("L{} changed from {} to {} inside a shared section of `{}`", s.leaf, reads[i], v, w));
				}
			}
		}
	}
	if body.rekey {
		let k2 = match ThreadKey::get() {
			Some(k) => Some(k),
			None => ThreadKey::get(),
		};
		if let Some(k2) = k2 {
			rt::violation("C06", format!("second-key-in-section|{}", rt::what_key(w)), format!("inside the section of `{}` ThreadKey::get() handed out a second key", w));
			// what a second key allows: the thread acquires while it holds (C03) and waits for itself (C01)
			let saved = rt::end_call();
			rt::begin_call(CallKind::Acquire, t.retrying, what(t, "lock (with a second key obtained inside the section)"));
			let g2 = t.coll.lock(k2);
			drop(g2);
			rt::end_call();
			rt::begin_call(saved.kind, saved.retrying, saved.what);
			rt::set_call_kind(CallKind::Body);
		}
	}
	if body.clear {
		t.coll.clear_poison();
		if let Some(f) = crate::menu::target_flag(&t.spec, t.index) {
			rt::pm_clear(f);
		}
	}
	check_all_held(t, write, w, "closure-exit");
	if body.panic {
		rt::note(format!("user panic {}", panic_id));
		rt::pm_panic_begin(&crate::menu::flags_of(t, t.index, w), write);
		resume_unwind(Box::new(UserPanic(panic_id)));
	}
}

fn check_all_held(t: &Target<'_>, write: bool, w: &str, tag: &str) {
	let held = rt::held_now();
	for l in &t.leaves {
		let ok = held.iter().any(|(h, m)| h == l && (*m == Mode::Excl || !write));
		if !ok {
			rt::violation("C02", format!("section-without-hold|{}", rt::what_key(w)), format!("at {} of `{}` the caller does not hold L{} (holds {:?})", tag, w, l, held));
		}
	}
}

/// Probe: is the thread's key obtainable right now? (immediately dropped)
pub fn key_free() -> bool {
	match ThreadKey::get() {
		Some(k) => {
			drop(k);
			true
		}
		None => false,
	}
}

fn guard_section<'s>(t: &Target<'_>, g: &Box<dyn Held + 's>, write: bool, body: Body, w: &str, panic_id: u32) {
	let slots = collect(&mut |f| g.visit(f));
	rt::set_call_kind(CallKind::Body);
	if key_free() {
		rt::violation("C06", format!("key-free-while-guard|{}", rt::what_key(w)), format!("ThreadKey::get() succeeds while the guard of `{}` is alive", w));
	}
	run_section(t, write, body, w, slots, panic_id);
}

/// Perform one acquisition step. Returns the key for the next step.
pub fn acquire(t: &Target<'_>, write: bool, flavour: Flavour, body: Body, key: ThreadKey, panic_id: u32) -> (ThreadKey, bool) {
	let succeeded = std::cell::Cell::new(false);
	let api = flavour.api(write);
	let w = what(t, api);
	let kind = if flavour.is_try() { CallKind::TryAcquire } else { CallKind::Acquire };
	let before = rt::table_fp();
	let mut lent_key: Option<ThreadKey> = None;
	let mut owned_key: Option<ThreadKey> = None;
	if flavour.lent() {
		lent_key = Some(key);
	} else {
		owned_key = Some(key);
	}
	let lent_ref = &mut lent_key;
	let r = catch_unwind(AssertUnwindSafe(|| -> Option<ThreadKey> {
		rt::begin_call(kind, t.retrying, w.clone());
		match flavour {
			Flavour::Guard | Flavour::GuardUnlock => {
				let key = owned_key.take().unwrap();
				let g = if write { t.coll.lock(key) } else { t.coll.read(key) };
				succeeded.set(true);
				check_acquired(t, write, &w);
				guard_section(t, &g, write, body, &w, panic_id);
				rt::set_call_kind(CallKind::Release);
				if flavour == Flavour::Guard {
					drop(g);
					rt::end_call();
					check_released(&w, "C05", "leak-after-drop");
					None
				} else {
					let k = g.unlock();
					rt::end_call();
					check_released(&w, "C03", "key-returned-while-holding");
					Some(k)
				}
			}
			Flavour::Try => {
				let key = owned_key.take().unwrap();
				let r = if write { t.coll.try_lock(key) } else { t.coll.try_read(key) };
				match r {
					Ok(g) => {
						rt::observe(1);
						succeeded.set(true);
						check_acquired(t, write, &w);
						guard_section(t, &g, write, body, &w, panic_id);
						rt::set_call_kind(CallKind::Release);
						drop(g);
						rt::end_call();
						check_released(&w, "C05", "leak-after-drop");
						None
					}
					Err(k) => {
						rt::observe(0);
						rt::end_call();
						check_released(&w, "C04", "failed-try-holds");
						if rt::table_fp() != before && rt::ctx().map(|c| c.0.lock().nthreads == 1).unwrap_or(false) {
							rt::violation("C13", format!("failed-try-changed-table|{}", rt::what_key(&w)), format!("failed `{}` changed the hold state: {}", w, rt::table_str()));
						}
						Some(k)
					}
				}
			}
			_ => {
				// scoped flavours
				let mut count = 0u32;
				let karg = if flavour.lent() { KeyArg::Lent(lent_ref.as_mut().unwrap()) } else { KeyArg::Owned(owned_key.take().unwrap()) };
				let mut f = |v: &dyn Visit| {
					count += 1;
					rt::observe(1);
					succeeded.set(true);
					check_acquired(t, write, &w);
					rt::set_call_kind(CallKind::Body);
					if key_free() {
						rt::violation("C06", format!("key-free-in-closure|{}", rt::what_key(&w)), format!("ThreadKey::get() succeeds inside the closure of `{}`", w));
					}
					let slots = collect(&mut |f| {
						let mut p = vec![];
						v.visit(&mut p, f)
					});
					run_section(t, write, body, &w, slots, panic_id);
					rt::set_call_kind(CallKind::Release);
				};
				let r = t.coll.scoped(write, flavour.is_try(), karg, &mut f);
				rt::end_call();
				match r {
					Scoped::Done => {
						if count != 1 {
							rt::violation("C04", format!("closure-count|{}", rt::what_key(&w)), format!("`{}` returned success but ran the closure {} times", w, count));
						}
						check_released(&w, "C03", "scoped-returned-while-holding");
						None
					}
					Scoped::WouldBlock(k) => {
						rt::observe(0);
						if !flavour.is_try() {
							rt::violation("C04", format!("blocking-returned-wouldblock|{}", rt::what_key(&w)), format!("`{}` failed", w));
						}
						if count != 0 {
							rt::violation("C04", format!("closure-count|{}", rt::what_key(&w)), format!("`{}` failed but ran the closure {} times", w, count));
						}
						check_released(&w, "C04", "failed-try-holds");
						if !flavour.lent() && k.is_none() {
							rt::violation("C04", format!("key-not-returned|{}", rt::what_key(&w)), format!("`{}` failed without handing the key back", w));
						}
						k
					}
				}
			}
		}
	}));
	let ok = succeeded.get();
	let k = match r {
		Ok(Some(k)) => k,
		Ok(None) => {
			if let Some(k) = lent_key {
				// the lent key must still be the thread's only key
				if key_free() {
					rt::violation("C06", format!("second-key-after-lent|{}", rt::what_key(&w)), format!("after `{}` the lent key is alive yet ThreadKey::get() succeeds", w));
				}
				k
			} else {
				match ThreadKey::get() {
					Some(k) => k,
					None => {
						rt::violation("C06", format!("key-lost|{}", rt::what_key(&w)), format!("after `{}` completed the thread's key is not obtainable", w));
						resume_unwind(Box::new(rt::AbortToken))
					}
				}
			}
		}
		Err(p) => {
			if rt::aborted() {
				resume_unwind(p);
			}
			match p.downcast_ref::<UserPanic>() {
				Some(u) if u.0 == panic_id && body.panic => {
					// C11: the injected user panic reached the caller; nothing may be leaked
					rt::end_call();
					rt::observe(0xbad);
					rt::pm_panic_end(&crate::menu::flags_of(t, t.index, &w));
					check_released(&w, "C11", "leak-after-user-panic");
					if let Some(k) = lent_key {
						if key_free() {
							rt::violation("C06", format!("second-key-after-lent|{}", rt::what_key(&w)), format!("after panic in `{}` the lent key is alive yet ThreadKey::get() succeeds", w));
						}
						k
					} else {
						match ThreadKey::get() {
							Some(k) => k,
							None => {
								rt::violation("C11", format!("key-lost-after-user-panic|{}", rt::what_key(&w)), format!("after a panic in `{}` the thread's key is not obtainable", w));
								resume_unwind(Box::new(rt::AbortToken))
							}
						}
					}
				}
				_ => {
					let msg = p.downcast_ref::<&str>().map(|s| s.to_string()).or_else(|| p.downcast_ref::<String>().cloned()).unwrap_or_default();
					if msg.contains("has been killed") && rt::any_fault_fired() {
						// the target contains a lock that a raw fault killed: refusing by panicking is the
						// specified behaviour (C12); the call must not keep anything
						rt::end_call();
						rt::observe(0xdead);
						check_released(&w, "C03", "unwound-while-holding");
						if let Some(k) = lent_key {
							k
						} else {
							match ThreadKey::get() {
								Some(k) => k,
								None => {
									rt::violation("C06", format!("key-lost|{}", rt::what_key(&w)), format!("after `{}` refused a killed lock the thread's key is not obtainable", w));
									resume_unwind(Box::new(rt::AbortToken))
								}
							}
						}
					} else {
						resume_unwind(p)
					}
				}
			}
		}
	};
	(k, ok)
}

pub fn run_thread(tid: usize, steps: &[Step], targets: &[Target<'_>]) {
	let mut key = match ThreadKey::get() {
		Some(k) => k,
		None => {
			rt::violation("C06", "no-key-at-thread-start".into(), format!("T{}: ThreadKey::get() is None on a fresh thread", tid));
			return;
		}
	};
	for (pc, step) in steps.iter().enumerate() {
		rt::set_pc(pc as u32);
		match step {
			Step::Acq { target, write, flavour, body } => {
				key = acquire(&targets[*target], *write, *flavour, *body, key, (tid * 100 + pc) as u32).0;
			}
			Step::IsPoisoned(t) => {
				rt::yield_point(2);
				let tg = &targets[*t];
				let v = tg.coll.is_poisoned().unwrap_or(false);
				if let Some(f) = crate::menu::target_flag(&tg.spec, *t) {
					if let Some(e) = rt::pm_expect(f) {
						if e != v {
							rt::violation("C10", if e { format!("missed-poison|{}", rt::pm_culprit(f)) } else { format!("spurious-poison|{}::is_poisoned|self", tg.shape) }, format!("{}.is_poisoned() returned {} but the model requires {}", tg.desc, v, e));
						}
					}
				}
				rt::observe(0x15b0 << 8 | v as u64);
			}
			Step::ClearPoison(t) => {
				rt::yield_point(3);
				let tg = &targets[*t];
				tg.coll.clear_poison();
				if let Some(f) = crate::menu::target_flag(&tg.spec, *t) {
					rt::pm_clear(f);
				}
			}
			Step::FaultyTry { target, write } => {
				let t = &targets[*target];
				let w = what(t, Flavour::Try.api(*write));
				rt::set_fault_next_try(true);
				let r = catch_unwind(AssertUnwindSafe(|| acquire(t, *write, Flavour::Try, Body::NONE, key, (tid * 100 + pc) as u32).0));
				let unfired = rt::set_fault_next_try(false);
				key = match r {
					Ok(k) => k,
					Err(p) => {
						if rt::aborted() || !p.is::<rt::FaultToken>() {
							resume_unwind(p);
						}
						rt::end_call();
						rt::observe(0xfa);
						check_released(&w, "C12", "leak-after-raw-fault");
						match ThreadKey::get() {
							Some(k) => k,
							None => {
								rt::violation("C12", format!("key-lost-after-raw-fault|{}", rt::what_key(&w)), format!("after a raw lock operation panicked in `{}` the thread's key is not obtainable", w));
								resume_unwind(Box::new(rt::AbortToken))
							}
						}
					}
				};
				let _ = unfired;
			}
			Step::Debug(t) => {
				let w = what(&targets[*t], "Debug");
				let mut before = rt::held_now();
				before.sort_by_key(|h| (h.0, h.1 as u8));
				rt::begin_call(CallKind::NonAcquiring, false, w.clone());
				let s = targets[*t].coll.debug();
				rt::end_call();
				rt::observe(s.len() as u64);
				let mut after = rt::held_now();
				after.sort_by_key(|h| (h.0, h.1 as u8));
				if after != before {
					rt::violation("C17", format!("nonacq-disturbs|{}", rt::what_key(&w)), format!("the caller held {:?} before `{}` and holds {:?} after it", before, w, after));
				}
			}
			Step::Kill(t) => {
				rt::yield_point(3);
				rt::explicit_kill(&targets[*t].leaves);
				targets[*t].coll.kill();
			}
		}
	}
	rt::set_pc(steps.len() as u32);
	drop(key);
}
