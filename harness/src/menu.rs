//! Menu-driven threads: at every step boundary the explorer picks one of the currently
//! available API calls. Used for the history properties C03 (total allocation), C06 (one key)
//! and C10 (poison model); states are merged on a canonical local state, so the search is a
//! breadth-first closure of the API alphabet.

use std::collections::hash_map::DefaultHasher;
use std::hash::{Hash, Hasher};
use std::panic::{catch_unwind, resume_unwind, AssertUnwindSafe};

use happylock::ThreadKey;
use serde::{Deserialize, Serialize};

use crate::interp::{key_free, what};
use crate::rt::{self, CallKind, Mode, UserPanic};
use crate::spec::{Native, Spec, Target};
use crate::world::{Held, KeyArg, Scoped, Visit, M0, NOW, OW0, OWSZ, PM0, PPM_LEAF, PPR_LEAF, PR0, R0};

#[derive(Clone, Debug, PartialEq, Eq, Hash, Serialize, Deserialize)]
pub enum MAct {
	Get,
	DropKey,
	ForgetKey,
	Nop,
	Lock { t: usize, write: bool },
	Try { t: usize, write: bool },
	Unlock,
	DropGuard,
	ForgetGuard,
	PanicWithGuard,
	Scoped { t: usize, write: bool, try_: bool, lent: bool, panic: bool },
	IsPoisoned { t: usize },
	ClearPoison { t: usize },
}
impl MAct {
	pub fn kind(&self) -> &'static str {
		match self {
			MAct::Get => "get",
			MAct::DropKey => "drop(key)",
			MAct::ForgetKey => "forget(key)",
			MAct::Nop => "nop",
			MAct::Lock { write: true, .. } => "lock",
			MAct::Lock { write: false, .. } => "read",
			MAct::Try { write: true, .. } => "try_lock",
			MAct::Try { write: false, .. } => "try_read",
			MAct::Unlock => "unlock",
			MAct::DropGuard => "drop(guard)",
			MAct::ForgetGuard => "forget(guard)",
			MAct::PanicWithGuard => "panic-with-guard",
			MAct::Scoped { write, try_, lent, panic, .. } => match (write, try_, lent, panic) {
				(true, false, true, false) => "scoped_lock(&mut key)",
				(true, false, false, false) => "scoped_lock(key)",
				(true, true, true, false) => "scoped_try_lock(&mut key)",
				(true, true, false, false) => "scoped_try_lock(key)",
				(false, false, true, false) => "scoped_read(&mut key)",
				(false, false, false, false) => "scoped_read(key)",
				(false, true, true, false) => "scoped_try_read(&mut key)",
				(false, true, false, false) => "scoped_try_read(key)",
				(true, false, true, true) => "scoped_lock(&mut key)+panic",
				(true, false, false, true) => "scoped_lock(key)+panic",
				(true, true, true, true) => "scoped_try_lock(&mut key)+panic",
				(true, true, false, true) => "scoped_try_lock(key)+panic",
				(false, false, true, true) => "scoped_read(&mut key)+panic",
				(false, false, false, true) => "scoped_read(key)+panic",
				(false, true, true, true) => "scoped_try_read(&mut key)+panic",
				(false, true, false, true) => "scoped_try_read(key)+panic",
			},
			MAct::IsPoisoned { .. } => "is_poisoned",
			MAct::ClearPoison { .. } => "clear_poison",
		}
	}
}

#[derive(Clone, Debug, Default, PartialEq, Eq, Hash, Serialize, Deserialize)]
pub struct MenuThread {
	pub actions: Vec<MAct>,
	/// C03 (c): after a key comes back and the target is free, re-acquire the very same target with try_*
	pub reacquire: bool,
}

#[derive(Clone, Copy, Debug, PartialEq, Eq, Hash)]
enum KS {
	Free,
	User,
	InGuard,
	Leaked,
}

// ---- poison flag identities ---------------------------------------------------------------

pub fn target_flag(spec: &Spec, t: usize) -> Option<u32> {
	match spec {
		Spec::PM(i) => Some(1 + *i as u32),
		Spec::PR(i) => Some(10 + *i as u32),
		Spec::PPM => Some(20),
		Spec::PPR => Some(22),
		Spec::Pois(_) | Spec::Native(Native::PoisOwned(_)) => Some(100 + t as u32 * 10),
		_ => None,
	}
}

fn leaf_of(spec: &Spec) -> u32 {
	match spec {
		Spec::R(i) => R0 + *i as u32,
		Spec::M(i) => M0 + *i as u32,
		Spec::PR(i) => PR0 + *i as u32,
		Spec::PM(i) => PM0 + *i as u32,
		_ => unreachable!(),
	}
}

fn paths_rec(spec: &Spec, t: usize, counter: &mut u32, prefix: &[u32], out: &mut Vec<(u32, Vec<u32>)>) {
	match spec {
		Spec::R(_) | Spec::M(_) => out.push((leaf_of(spec), prefix.to_vec())),
		Spec::PR(i) => {
			let mut p = prefix.to_vec();
			p.push(10 + *i as u32);
			out.push((leaf_of(spec), p));
		}
		Spec::PM(i) => {
			let mut p = prefix.to_vec();
			p.push(1 + *i as u32);
			out.push((leaf_of(spec), p));
		}
		Spec::OW(i) => {
			for j in 0..OWSZ {
				out.push((OW0 + (*i * OWSZ + j) as u32, prefix.to_vec()));
			}
			let _ = NOW;
		}
		Spec::PPM => {
			let mut p = prefix.to_vec();
			p.extend([20, 21]);
			out.push((PPM_LEAF, p));
		}
		Spec::PPR => {
			let mut p = prefix.to_vec();
			p.extend([22, 23]);
			out.push((PPR_LEAF, p));
		}
		Spec::Coll(_, ms) => {
			for m in ms {
				paths_rec(m, t, counter, prefix, out);
			}
		}
		Spec::Pois(inner) => {
			let id = 100 + t as u32 * 10 + *counter;
			*counter += 1;
			let mut p = prefix.to_vec();
			p.push(id);
			paths_rec(inner, t, counter, &p, out);
		}
		Spec::Native(_) => unreachable!(),
	}
}

/// For each leaf of the target in declared order: the Poisonable flags on the way to it, outermost first.
pub fn flag_paths(t: &Target<'_>, ti: usize) -> Vec<(u32, Vec<u32>)> {
	match &t.spec {
		Spec::Native(n) => match n {
			Native::BoxedTupRRP(..) => vec![(t.leaves[0], vec![]), (t.leaves[1], vec![]), (t.leaves[2], vec![10 + (t.leaves[2] - PR0)])],
			Native::OwnedPoisR => vec![(t.leaves[0], vec![100 + ti as u32 * 10]), (t.leaves[1], vec![])],
			Native::PoisOwned(_) => t.leaves.iter().map(|l| (*l, vec![100 + ti as u32 * 10])).collect(),
			_ => t.leaves.iter().map(|l| (*l, vec![])).collect(),
		},
		s => {
			let mut out = vec![];
			let mut c = 0;
			paths_rec(s, ti, &mut c, &[], &mut out);
			out
		}
	}
}

fn flag_class(t: &Target<'_>, ti: usize, flag: u32, depth: usize) -> &'static str {
	if Some(flag) == target_flag(&t.spec, ti) && depth == 0 {
		"self"
	} else if flag == 21 || flag == 23 {
		"inner-wrapper"
	} else if flag >= 100 {
		"nested-wrapper"
	} else {
		"member"
	}
}

/// Compare the Ok/Err structure seen through a guard or closure argument with the poison model.
pub fn check_poison_view(t: &Target<'_>, ti: usize, api: &str, slots: &[(u32, Vec<bool>)]) {
	let paths = flag_paths(t, ti);
	let leaves: Vec<u32> = slots.iter().map(|s| s.0).collect();
	if leaves != t.leaves {
		rt::violation("C02", format!("misrouted|{}", rt::what_key(&what(t, api))), format!("`{}` exposes payloads of leaves {:?} but the declared members are {:?}", what(t, api), leaves, t.leaves));
		return;
	}
	for ((leaf, seen), (_, flags)) in slots.iter().zip(paths.iter()) {
		if seen.len() != flags.len() {
			rt::violation("C10", format!("poison-structure|{}", rt::what_key(&what(t, api))), format!("leaf L{} of `{}` is wrapped in {} PoisonResults but {} Poisonable wrappers are declared", leaf, what(t, api), seen.len(), flags.len()));
			continue;
		}
		for (d, (f, s)) in flags.iter().zip(seen.iter()).enumerate() {
			if let Some(e) = rt::pm_expect(*f) {
				if e != *s {
					rt::violation(
						"C10",
						if e { format!("missed-poison|{}", rt::pm_culprit(*f)) } else { format!("spurious-poison|{}|{}", rt::what_key(&what(t, api)), flag_class(t, ti, *f, d)) },
						format!("`{}`: the {} Poisonable (flag {}) on the way to L{} reports {} but the model requires {}", what(t, api), flag_class(t, ti, *f, d), f, leaf, if *s { "Err(poisoned)" } else { "Ok" }, if e { "Err(poisoned)" } else { "Ok" }),
					);
				}
			}
			rt::observe(0x9015 << 32 | (*f as u64) << 1 | *s as u64);
		}
	}
}

/// Every Poisonable flag covered by a hold on the target, with the culprit key used if a panic
/// during that hold fails to poison it: `<call>|<position of the flag relative to the target>`.
pub fn flags_of(t: &Target<'_>, ti: usize, w: &str) -> Vec<(u32, String, Vec<u32>)> {
	let mut v: Vec<(u32, usize)> = vec![];
	let paths = flag_paths(t, ti);
	for (_, fl) in &paths {
		for (d, f) in fl.iter().enumerate() {
			v.push((*f, d));
		}
	}
	if let Some(f) = target_flag(&t.spec, ti) {
		v.push((f, 0));
	}
	v.sort();
	v.dedup_by_key(|x| x.0);
	v.into_iter()
		.map(|(f, d)| {
			let mut leaves: Vec<u32> = paths.iter().filter(|(_, fl)| fl.contains(&f)).map(|(l, _)| *l).collect();
			if Some(f) == target_flag(&t.spec, ti) {
				leaves = t.leaves.clone();
			}
			(f, format!("{}|{}", rt::what_key(w), flag_class(t, ti, f, d)), leaves)
		})
		.collect()
}

fn check_acquired(t: &Target<'_>, write: bool, w: &str) {
	let mut held = rt::held_now();
	held.sort_by_key(|h| h.0);
	let mut want: Vec<(u32, Mode)> = t.leaves.iter().map(|l| (*l, if write { Mode::Excl } else { Mode::Shared })).collect();
	want.sort_by_key(|h| h.0);
	if held != want {
		rt::violation("C04", format!("coverage|{}", rt::what_key(w)), format!("after `{}` the caller holds {:?} but the target's leaves are {:?}", w, held, want));
	}
}
fn check_released(w: &str, prop: &'static str, tag: &str) {
	let held = rt::held_now();
	if !held.is_empty() {
		rt::violation(prop, format!("{}|{}", tag, rt::what_key(w)), format!("after `{}` ({}) the caller still holds {:?}", w, tag, held));
	}
}

fn slots_of(visit: &mut dyn FnMut(&mut crate::world::VisitFn<'_>)) -> Vec<(u32, Vec<bool>)> {
	let mut s = vec![];
	visit(&mut |p, _excl, poison| s.push((p.leaf, poison.to_vec())));
	s
}

struct Th<'w> {
	key: Option<ThreadKey>,
	guard: Option<(Box<dyn Held + 'w>, usize, bool)>,
	ks: KS,
}

pub fn run_thread<'w>(tid: usize, cfg: &MenuThread, targets: &'w [Target<'w>], _specs: &[Spec]) {
	let mut th = Th { key: None, guard: None, ks: KS::Free };
	// a fresh thread's key is obtainable
	if !key_free() {
		rt::violation("C06", "no-key-at-thread-start".into(), format!("T{}: ThreadKey::get() is None on a fresh thread", tid));
		return;
	}
	loop {
		if th.ks == KS::Leaked {
			break;
		}
		let mut menu = vec![];
		for (i, a) in cfg.actions.iter().enumerate() {
			let ok = match a {
				MAct::Get => th.ks == KS::Free,
				MAct::DropKey | MAct::ForgetKey => th.ks == KS::User,
				MAct::Nop => true,
				MAct::Lock { t, .. } => th.ks == KS::User && !rt::leaked_any(&targets[*t].leaves),
				MAct::Try { .. } => th.ks == KS::User,
				MAct::Scoped { t, try_, .. } => th.ks == KS::User && (*try_ || !rt::leaked_any(&targets[*t].leaves)),
				MAct::Unlock | MAct::DropGuard | MAct::ForgetGuard | MAct::PanicWithGuard => th.ks == KS::InGuard,
				MAct::IsPoisoned { .. } | MAct::ClearPoison { .. } => true,
			};
			if ok {
				menu.push(i as u16);
			}
		}
		if menu.is_empty() {
			break;
		}
		let mut h = DefaultHasher::new();
		(th.ks as u8, th.guard.as_ref().map(|g| (g.1, g.2))).hash(&mut h);
		rt::set_local(h.finish());
		let c = rt::menu_point(menu);
		let act = cfg.actions[c as usize].clone();
		// while the action is in progress (it may block half-way) the action itself is part of the thread's local
		// state: two threads blocked on the same raw operation inside different calls have different futures
		let mut h = DefaultHasher::new();
		(th.ks as u8, th.guard.as_ref().map(|g| (g.1, g.2)), 0x1234u16, c).hash(&mut h);
		rt::set_local(h.finish());
		rt::set_watch(match &act {
			MAct::Lock { t, .. } | MAct::Try { t, .. } | MAct::Scoped { t, .. } | MAct::IsPoisoned { t } | MAct::ClearPoison { t } => Some(*t),
			MAct::Unlock | MAct::DropGuard | MAct::ForgetGuard | MAct::PanicWithGuard => th.guard.as_ref().map(|g| g.1),
			_ => None,
		});
		perform(&mut th, &act, targets, cfg);
		rt::set_watch(None);
		// the key probe after every step (C06)
		let free = key_free();
		if free && th.ks == KS::InGuard {
			// a second key while a guard is alive: show what it allows (C03: acquiring while holding)
			if let (Some(k2), Some((_, gt, _))) = (ThreadKey::get(), th.guard.as_ref()) {
				let t = &targets[*gt];
				let w = what(t, "try_lock (with a second key obtained while the guard is alive)");
				let saved = rt::end_call();
				rt::begin_call(CallKind::TryAcquire, t.retrying, w);
				if let Ok(g) = t.coll.try_lock(k2) {
					drop(g);
				}
				rt::end_call();
				rt::begin_call(saved.kind, saved.retrying, saved.what);
				rt::set_call_kind(CallKind::Body);
			}
		}
		if free != (th.ks == KS::Free) {
			rt::violation(
				"C06",
				format!("probe-mismatch|after-{}|model-{:?}|get-{}", act.kind(), th.ks, if free { "some" } else { "none" }),
				format!("T{}: after `{}` the key model is {:?} but ThreadKey::get() returned {}", tid, act.kind(), th.ks, if free { "Some" } else { "None" }),
			);
		}
	}
	// leaked keys / guards stay leaked: the OS thread is retired by the pool
	if let Some((g, _, _)) = th.guard.take() {
		drop(g);
	}
}


/// A free target that refuses a non-blocking acquisition while (the model says) one of its Poisonables is poisoned:
/// "a poisoned acquisition still acquires the lock and its error carries a working guard" (C10).
fn poisoned_refusal(t: &Target<'_>, ti: usize, w: &str) {
	let poisoned: Vec<u32> = flags_of(t, ti, w).into_iter().map(|(f, _, _)| f).filter(|f| rt::pm_expect(*f) == Some(true)).collect();
	if !poisoned.is_empty() {
		rt::violation("C10", format!("poisoned-acquisition-refused|{}", rt::what_key(w)), format!("`{}` failed although every leaf was available; poisoned flags under the target: {:?}", w, poisoned));
	}
}

fn perform<'w>(th: &mut Th<'w>, act: &MAct, targets: &'w [Target<'w>], cfg: &MenuThread) {
	match act {
		MAct::Nop => {}
		MAct::Get => match ThreadKey::get() {
			Some(k) => {
				th.key = Some(k);
				th.ks = KS::User;
			}
			None => {
				rt::violation("C06", "get-none-while-free".into(), "ThreadKey::get() returned None although the thread's key is not alive".into());
			}
		},
		MAct::DropKey => {
			drop(th.key.take());
			th.ks = KS::Free;
		}
		MAct::ForgetKey => {
			std::mem::forget(th.key.take());
			th.ks = KS::Leaked;
		}
		MAct::Lock { t, write } | MAct::Try { t, write } => {
			let ti = *t;
			let t = &targets[ti];
			let is_try = matches!(act, MAct::Try { .. });
			let api = act.kind();
			let w = what(t, api);
			let expect_ok = rt::acquirable(&t.leaves, *write);
			let key = th.key.take().unwrap();
			rt::begin_call(if is_try { CallKind::TryAcquire } else { CallKind::Acquire }, t.retrying, w.clone());
			let r = if is_try {
				if *write {
					t.coll.try_lock(key)
				} else {
					t.coll.try_read(key)
				}
			} else {
				Ok(if *write { t.coll.lock(key) } else { t.coll.read(key) })
			};
			match r {
				Ok(g) => {
					if is_try && !expect_ok {
						rt::violation("C13", format!("try-outcome|{}|expected-failure", rt::what_key(&w)), format!("`{}` succeeded although a leaf was held", w));
					}
					check_acquired(t, *write, &w);
					let slots = slots_of(&mut |f| g.visit(f));
					check_poison_view(t, ti, api, &slots);
					rt::set_call_kind(CallKind::Body);
					th.guard = Some((g, ti, *write));
					th.ks = KS::InGuard;
				}
				Err(k) => {
					rt::end_call();
					if expect_ok {
						rt::violation("C13", format!("try-outcome|{}|expected-success", rt::what_key(&w)), format!("`{}` failed although every leaf was available: {}", w, rt::table_str()));
						poisoned_refusal(t, ti, &w);
					}
					check_released(&w, "C04", "failed-try-holds");
					th.key = Some(k);
					th.ks = KS::User;
				}
			}
		}
		MAct::Unlock => {
			let (g, ti, write) = th.guard.take().unwrap();
			let t = &targets[ti];
			let w = what(t, if write { "lock+unlock" } else { "read+unlock_read" });
			rt::set_call_kind(CallKind::Release);
			let k = g.unlock();
			rt::end_call();
			check_released(&w, "C03", "key-returned-while-holding");
			th.key = Some(k);
			th.ks = KS::User;
			if cfg.reacquire && rt::acquirable(&t.leaves, write) {
				reacquire(th, t, write);
			}
		}
		MAct::DropGuard => {
			let (g, ti, write) = th.guard.take().unwrap();
			let t = &targets[ti];
			let w = what(t, if write { "lock+drop" } else { "read+drop" });
			rt::set_call_kind(CallKind::Release);
			drop(g);
			rt::end_call();
			check_released(&w, "C05", "leak-after-drop");
			th.ks = KS::Free;
		}
		MAct::ForgetGuard => {
			let (g, ti, _) = th.guard.take().unwrap();
			rt::leak_leaves(&targets[ti].leaves);
			rt::end_call();
			std::mem::forget(g);
			th.ks = KS::Leaked;
		}
		MAct::PanicWithGuard => {
			let (g, ti, write) = th.guard.take().unwrap();
			let t = &targets[ti];
			let w = what(t, if write { "lock+panic" } else { "read+panic" });
			let flags = flags_of(t, ti, &w);
			let fl2 = flags.clone();
			let r: Result<Scoped, _> = catch_unwind(AssertUnwindSafe(move || -> Scoped {
				let _g = g;
				rt::set_call_kind(CallKind::Release);
				rt::pm_panic_begin(&fl2, write);
				resume_unwind(Box::new(UserPanic(7)));
			}));
			rt::end_call();
			finish_panic(r, &w);
			rt::pm_panic_end(&flags);
			th.ks = KS::Free;
		}
		MAct::Scoped { t, write, try_, lent, panic } => {
			let ti = *t;
			let t = &targets[ti];
			let api = act.kind();
			let w = what(t, api);
			let expect_ok = !*try_ || rt::acquirable(&t.leaves, *write);
			let flags = flags_of(t, ti, &w);
			let mut count = 0u32;
			let mut lent_key = None;
			let mut owned_key = None;
			if *lent {
				lent_key = th.key.take();
			} else {
				owned_key = th.key.take();
			}
			let lent_ref = &mut lent_key;
			let r = catch_unwind(AssertUnwindSafe(|| {
				rt::begin_call(if *try_ { CallKind::TryAcquire } else { CallKind::Acquire }, t.retrying, w.clone());
				let karg = if *lent { KeyArg::Lent(lent_ref.as_mut().unwrap()) } else { KeyArg::Owned(owned_key.take().unwrap()) };
				let mut f = |v: &dyn Visit| {
					count += 1;
					check_acquired(t, *write, &w);
					rt::set_call_kind(CallKind::Body);
					if key_free() {
						rt::violation("C06", format!("key-free-in-closure|{}", rt::what_key(&w)), format!("ThreadKey::get() succeeds inside the closure of `{}`", w));
					}
					let slots = slots_of(&mut |f| {
						let mut p = vec![];
						v.visit(&mut p, f)
					});
					check_poison_view(t, ti, api, &slots);
					rt::set_call_kind(CallKind::Release);
					if *panic {
						rt::pm_panic_begin(&flags, *write);
						resume_unwind(Box::new(UserPanic(7)));
					}
				};
				t.coll.scoped(*write, *try_, karg, &mut f)
			}));
			rt::end_call();
			match r {
				Ok(Scoped::Done) => {
					if !expect_ok {
						rt::violation("C13", format!("try-outcome|{}|expected-failure", rt::what_key(&w)), format!("`{}` succeeded although a leaf was held", w));
					}
					if count != 1 {
						rt::violation("C04", format!("closure-count|{}", rt::what_key(&w)), format!("`{}` returned success but ran the closure {} times", w, count));
					}
					check_released(&w, "C03", "scoped-returned-while-holding");
					if *lent {
						th.key = lent_key;
						th.ks = KS::User;
						if cfg.reacquire && rt::acquirable(&t.leaves, *write) {
							reacquire(th, t, *write);
						}
					} else {
						th.ks = KS::Free;
					}
				}
				Ok(Scoped::WouldBlock(k)) => {
					if expect_ok {
						rt::violation("C13", format!("try-outcome|{}|expected-success", rt::what_key(&w)), format!("`{}` failed although every leaf was available", w));
						poisoned_refusal(t, ti, &w);
					}
					if count != 0 {
						rt::violation("C04", format!("closure-count|{}", rt::what_key(&w)), format!("`{}` failed but ran the closure {} times", w, count));
					}
					check_released(&w, "C04", "failed-try-holds");
					if *lent {
						th.key = lent_key;
					} else {
						if k.is_none() {
							rt::violation("C04", format!("key-not-returned|{}", rt::what_key(&w)), format!("`{}` failed without handing the key back", w));
						}
						th.key = k;
					}
					th.ks = if th.key.is_some() { KS::User } else { KS::Free };
				}
				Err(p) => {
					finish_panic(Err(p), &w);
					rt::pm_panic_end(&flags);
					if *lent {
						th.key = lent_key;
						th.ks = KS::User;
					} else {
						th.ks = KS::Free;
					}
				}
			}
		}
		MAct::IsPoisoned { t } => {
			let ti = *t;
			let t = &targets[ti];
			if let (Some(v), Some(f)) = (t.coll.is_poisoned(), target_flag(&t.spec, ti)) {
				if let Some(e) = rt::pm_expect(f) {
					if e != v {
						rt::violation("C10", if e { format!("missed-poison|{}", rt::pm_culprit(f)) } else { format!("spurious-poison|{}::is_poisoned|self", t.shape) }, format!("{}.is_poisoned() returned {} but the model requires {}", t.desc, v, e));
					}
				}
				rt::observe(0x15b0 << 8 | v as u64);
			}
		}
		MAct::ClearPoison { t } => {
			let ti = *t;
			let t = &targets[ti];
			if let Some(f) = target_flag(&t.spec, ti) {
				t.coll.clear_poison();
				rt::pm_clear(f);
				if t.coll.is_poisoned() == Some(true) {
					rt::violation("C10", format!("clear_poison-ineffective|{}", t.shape), format!("{}.clear_poison() left is_poisoned() true", t.desc));
				}
			}
		}
	}
}

/// C03 (c): with the key just handed back, the very same target must be acquirable without waiting on oneself.
fn reacquire<'w>(th: &mut Th<'w>, t: &'w Target<'w>, write: bool) {
	let key = th.key.take().unwrap();
	let w = what(t, if write { "try_lock (re-acquire)" } else { "try_read (re-acquire)" });
	rt::begin_call(CallKind::TryAcquire, t.retrying, w.clone());
	let r = if write { t.coll.try_lock(key) } else { t.coll.try_read(key) };
	match r {
		Ok(g) => {
			rt::set_call_kind(CallKind::Release);
			let k = g.unlock();
			rt::end_call();
			check_released(&w, "C03", "key-returned-while-holding");
			th.key = Some(k);
		}
		Err(k) => {
			rt::end_call();
			rt::violation("C03", format!("cannot-reacquire|{}", rt::what_key(&w)), format!("right after its key came back the thread cannot re-acquire the same free target with `{}`; table: {}", w, rt::table_str()));
			th.key = Some(k);
		}
	}
}

fn finish_panic(r: Result<Scoped, Box<dyn std::any::Any + Send>>, w: &str) {
	match r {
		Ok(_) => {
			rt::violation("C11", format!("panic-swallowed|{}", rt::what_key(w)), format!("a user panic inside `{}` did not reach the caller", w));
		}
		Err(p) => {
			if rt::aborted() {
				resume_unwind(p);
			}
			if p.downcast_ref::<UserPanic>().is_none() {
				resume_unwind(p);
			}
			check_released(w, "C11", "leak-after-user-panic");
		}
	}
}
