//! C16: every value placed in a lock or collection is dropped exactly once on every construction
//! and destruction path, and get_mut / into_inner / into_child return the stored values at the
//! declared positions, reflecting the last write made under a lock. Input/history enumeration with
//! drop-counting payloads; cases run in a child process (a double free may abort).

use std::cell::RefCell;
use std::collections::BTreeSet;
use std::io::Write;
use std::panic::{catch_unwind, AssertUnwindSafe};
use std::rc::Rc;

use happylock::collection::{BoxedLockCollection, OwnedLockCollection, RefLockCollection, RetryingLockCollection};
use happylock::{Mutex, Poisonable, RwLock, ThreadKey};
use serde_json::json;

use crate::report::{Report, Viol};

thread_local! {
	static COUNTS: RefCell<Vec<u32>> = const { RefCell::new(vec![]) };
	static PROBLEMS: RefCell<Vec<String>> = const { RefCell::new(vec![]) };
}

#[derive(Debug)]
pub struct Token {
	id: usize,
	pub val: u64,
}
impl Token {
	fn new() -> Token {
		let id = COUNTS.with(|c| {
			let mut c = c.borrow_mut();
			c.push(0);
			c.len() - 1
		});
		Token { id, val: id as u64 * 10 }
	}
}
impl Default for Token {
	fn default() -> Self {
		Token::new()
	}
}
impl Drop for Token {
	fn drop(&mut self) {
		COUNTS.with(|c| c.borrow_mut()[self.id] += 1);
	}
}
fn problem(s: String) {
	PROBLEMS.with(|p| p.borrow_mut().push(s));
}
fn expect(ok: bool, what: &str) {
	if !ok {
		problem(what.to_string());
	}
}

type M = Mutex<Token>;
type R = RwLock<Token>;

fn ms(n: usize) -> Vec<M> {
	(0..n).map(|_| Mutex::new(Token::new())).collect()
}
fn rs(n: usize) -> Vec<R> {
	(0..n).map(|_| RwLock::new(Token::new())).collect()
}
fn key() -> ThreadKey {
	ThreadKey::get().expect("key")
}

/// ids of tokens in declared order must be first..first+n, values as written
fn check_ids(ids: &[usize], first: usize, what: &str) {
	let want: Vec<usize> = (first..first + ids.len()).collect();
	if ids != want {
		problem(format!("{}: tokens come back as {:?}, declared order is {:?}", what, ids, want));
	}
}

#[derive(Clone, Copy, Debug, PartialEq)]
enum Destroy {
	Drop,
	IntoChild,
	IntoInner,
	IntoIterFull,
	IntoIterPartial,
	GetMutThenDrop,
	LeakGuardThenDrop,
	WriteThenIntoInner,
	/// the collection is dropped by a panic unwinding through its owner (with a live guard dropped first)
	DropDuringUnwind,
}
const DESTROYS: [Destroy; 9] = [Destroy::Drop, Destroy::IntoChild, Destroy::IntoInner, Destroy::IntoIterFull, Destroy::IntoIterPartial, Destroy::GetMutThenDrop, Destroy::LeakGuardThenDrop, Destroy::WriteThenIntoInner, Destroy::DropDuringUnwind];

type Case = (String, Box<dyn Fn() + Send + Sync>);

// ---- raw locks that can be killed: an unlock that (after really unlocking) panics on request ----
thread_local! {
	static UNLOCK_FAULT: std::cell::Cell<bool> = const { std::cell::Cell::new(false) };
}
pub struct KRawMutex(std::sync::atomic::AtomicBool);
unsafe impl lock_api::RawMutex for KRawMutex {
	#[allow(clippy::declare_interior_mutable_const)]
	const INIT: Self = KRawMutex(std::sync::atomic::AtomicBool::new(false));
	type GuardMarker = lock_api::GuardSend;
	fn lock(&self) {
		while !self.try_lock() {
			std::thread::yield_now();
		}
	}
	fn try_lock(&self) -> bool {
		self.0.compare_exchange(false, true, std::sync::atomic::Ordering::Acquire, std::sync::atomic::Ordering::Relaxed).is_ok()
	}
	unsafe fn unlock(&self) {
		self.0.store(false, std::sync::atomic::Ordering::Release);
		if UNLOCK_FAULT.with(|f| f.replace(false)) {
			std::panic::resume_unwind(Box::new("faulty unlock"));
		}
	}
}
pub struct KRawRw(std::sync::atomic::AtomicIsize);
unsafe impl lock_api::RawRwLock for KRawRw {
	#[allow(clippy::declare_interior_mutable_const)]
	const INIT: Self = KRawRw(std::sync::atomic::AtomicIsize::new(0));
	type GuardMarker = lock_api::GuardSend;
	fn lock_shared(&self) {
		while !self.try_lock_shared() {
			std::thread::yield_now();
		}
	}
	fn try_lock_shared(&self) -> bool {
		let v = self.0.load(std::sync::atomic::Ordering::Relaxed);
		v >= 0 && self.0.compare_exchange(v, v + 1, std::sync::atomic::Ordering::Acquire, std::sync::atomic::Ordering::Relaxed).is_ok()
	}
	unsafe fn unlock_shared(&self) {
		self.0.fetch_sub(1, std::sync::atomic::Ordering::Release);
		if UNLOCK_FAULT.with(|f| f.replace(false)) {
			std::panic::resume_unwind(Box::new("faulty unlock"));
		}
	}
	fn lock_exclusive(&self) {
		while !self.try_lock_exclusive() {
			std::thread::yield_now();
		}
	}
	fn try_lock_exclusive(&self) -> bool {
		self.0.compare_exchange(0, -1, std::sync::atomic::Ordering::Acquire, std::sync::atomic::Ordering::Relaxed).is_ok()
	}
	unsafe fn unlock_exclusive(&self) {
		self.0.store(0, std::sync::atomic::Ordering::Release);
		if UNLOCK_FAULT.with(|f| f.replace(false)) {
			std::panic::resume_unwind(Box::new("faulty unlock"));
		}
	}
}
type KM = happylock::mutex::Mutex<Token, KRawMutex>;
type KR = happylock::rwlock::RwLock<Token, KRawRw>;
/// n locks, the one at position `k` killed (its raw unlock panicked once; the raw lock itself is free again)
fn kms(n: usize, k: usize) -> Vec<KM> {
	let v: Vec<KM> = (0..n).map(|_| KM::new(Token::new())).collect();
	if k < n {
		UNLOCK_FAULT.with(|f| f.set(true));
		let r = catch_unwind(AssertUnwindSafe(|| v[k].scoped_try_lock(key(), |_| ())));
		assert!(r.is_err(), "the faulty unlock panics");
	}
	v
}
fn krs(n: usize, k: usize) -> Vec<KR> {
	let v: Vec<KR> = (0..n).map(|_| KR::new(Token::new())).collect();
	if k < n {
		UNLOCK_FAULT.with(|f| f.set(true));
		let r = catch_unwind(AssertUnwindSafe(|| v[k].scoped_try_write(key(), |_| ())));
		assert!(r.is_err(), "the faulty unlock panics");
	}
	v
}
trait IntoTok {
	fn tok(self) -> Token;
}
impl IntoTok for KM {
	fn tok(self) -> Token {
		self.into_inner()
	}
}
impl IntoTok for KR {
	fn tok(self) -> Token {
		self.into_inner()
	}
}

/// Constructors and destructors over members that were killed beforehand: a killed lock is still a value
/// that was placed in the collection, so it is dropped once / handed back like any other.
macro_rules! killed_cases {
	($out:ident, $coll:ident, $cname:expr, $mk:ident, $lname:expr) => {
		for n in 1..=3usize {
			for k in 0..n {
				for ctor in ["new", "try_new", "from", "from_iter", "extend-or-new"] {
					for d in [Destroy::Drop, Destroy::IntoChild, Destroy::IntoInner, Destroy::IntoIterFull] {
						$out.push((format!("{}<Vec<{}>>[{}] with member {} killed: {} -> {:?}", $cname, $lname, n, k, ctor, d), Box::new(move || {
							let first = COUNTS.with(|c| c.borrow().len());
							let v = $mk(n, k);
							// a constructor may refuse a killed lock by panicking (the property does not say it cannot); the
							// values must then still be dropped exactly once, which the counters decide
							let Ok(c) = catch_unwind(AssertUnwindSafe(move || -> $coll<Vec<_>> {
								match ctor {
									"new" | "extend-or-new" => $coll::new(v),
									"try_new" => killed_cases!(@try $coll, v),
									"from" => $coll::from(v),
									_ => v.into_iter().collect(),
								}
							})) else {
								return;
							};
							match d {
								Destroy::Drop => drop(c),
								Destroy::IntoChild => check_ids(&c.into_child().into_iter().map(|l| l.tok().id).collect::<Vec<_>>(), first, "into_child"),
								Destroy::IntoInner => check_ids(&c.into_inner().iter().map(|t| t.id).collect::<Vec<_>>(), first, "into_inner"),
								_ => check_ids(&c.into_iter().map(|l| l.tok().id).collect::<Vec<_>>(), first, "into_iter"),
							}
						})));
					}
				}
			}
		}
	};
	(@try OwnedLockCollection, $v:ident) => { OwnedLockCollection::new($v) };
	(@try RetryingLockCollection, $v:ident) => { RetryingLockCollection::try_new($v).expect("distinct") };
	(@try BoxedLockCollection, $v:ident) => { BoxedLockCollection::try_new($v).expect("distinct") };
}

macro_rules! vec_kind_cases {
	($out:ident, $K:ident, $kname:expr, $n:expr, $lock:ident, $mk:ident, $Leaf:ty, $gm:tt) => {
		for ctor in ["new", "from", "from_iter", "try_new"] {
			if ctor == "try_new" && $kname == "Owned" {
				continue;
			}
			for d in DESTROYS {
				let n: usize = $n;
				$out.push((format!("{}<Vec<{}>>[{}] {} -> {:?}", $kname, stringify!($Leaf), n, ctor, d), Box::new(move || {
					let first = COUNTS.with(|c| c.borrow().len());
					let v = $mk(n);
					#[allow(unused_mut)]
					let mut c: $K<Vec<$Leaf>> = match ctor {
						"new" => $K::new(v),
						"from" => $K::from(v),
						"from_iter" => v.into_iter().collect(),
						_ => vec_try_new!($K, v),
					};
					match d {
						Destroy::Drop => drop(c),
						Destroy::IntoChild => {
							let ch = c.into_child();
							check_ids(&ch.iter().map(|l| unsafe_peek(l)).collect::<Vec<_>>(), first, "into_child");
						}
						Destroy::IntoInner => {
							let inner = c.into_inner();
							check_ids(&inner.iter().map(|t| t.id).collect::<Vec<_>>(), first, "into_inner");
						}
						Destroy::IntoIterFull => {
							let ids: Vec<usize> = c.into_iter().map(|l| l.into_inner().id).collect();
							check_ids(&ids, first, "into_iter");
						}
						Destroy::IntoIterPartial => {
							let mut it = c.into_iter();
							if let Some(l) = it.next() {
								expect(l.into_inner().id == first, "into_iter first element");
							}
							drop(it);
						}
						Destroy::GetMutThenDrop => {
							get_mut_check!($gm, c, first);
							drop(c);
						}
						Destroy::LeakGuardThenDrop => {
							let g = c.lock(key());
							std::mem::forget(g);
							drop(c);
						}
						Destroy::DropDuringUnwind => {
							let r = catch_unwind(AssertUnwindSafe(move || {
								let c = c;
								let _g = c.$lock(key());
								std::panic::resume_unwind(Box::new(1u8));
							}));
							expect(r.is_err(), "the panic propagates");
						}
						Destroy::WriteThenIntoInner => {
							c.scoped_lock(key(), |mut d| {
								for (i, t) in d.iter_mut().enumerate() {
									t.val = 1000 + i as u64;
								}
							});
							let g = c.$lock(key());
							for (i, t) in g.iter().enumerate() {
								expect(t.val == 1000 + i as u64, "value written under the lock is visible to the next hold");
							}
							drop(g);
							let inner = c.into_inner();
							for (i, t) in inner.iter().enumerate() {
								expect(t.val == 1000 + i as u64 && t.id == first + i, "into_inner reflects the last write at the declared position");
							}
						}
					}
				})));
			}
		}
	};
}
macro_rules! vec_try_new {
	(OwnedLockCollection, $v:expr) => {
		OwnedLockCollection::new($v)
	};
	($K:ident, $v:expr) => {
		$K::try_new($v).expect("owned input has no duplicates")
	};
}
macro_rules! get_mut_check {
	(nogm, $c:ident, $first:ident) => {
		// BoxedLockCollection has no get_mut (it would alias the cached lock list); use child()
		check_ids(&$c.child().iter().map(|l| unsafe_peek(l)).collect::<Vec<_>>(), $first, "child");
	};
	(gm, $c:ident, $first:ident) => {{
		let mut gm = $c.get_mut();
		check_ids(&gm.iter().map(|t| t.id).collect::<Vec<_>>(), $first, "get_mut");
		for t in gm.iter_mut() {
			t.val += 1;
		}
	}};
}

trait Peek {
	fn peek(&self) -> usize;
}
impl Peek for M {
	fn peek(&self) -> usize {
		let mut id = 0;
		self.scoped_lock(key(), |t| id = t.id);
		id
	}
}
impl Peek for R {
	fn peek(&self) -> usize {
		let id = std::cell::Cell::new(0);
		self.scoped_read(key(), |t| id.set(t.id));
		id.get()
	}
}
fn unsafe_peek<L: Peek>(l: &L) -> usize {
	l.peek()
}

macro_rules! array_cases {
	($out:ident, $N:expr) => {
		for d in [Destroy::Drop, Destroy::IntoChild, Destroy::IntoInner, Destroy::IntoIterFull, Destroy::IntoIterPartial, Destroy::GetMutThenDrop, Destroy::LeakGuardThenDrop, Destroy::WriteThenIntoInner, Destroy::DropDuringUnwind] {
			for kind in ["Owned", "Boxed", "Retrying"] {
				$out.push((format!("{}<[Mutex;{}]> new -> {:?}", kind, $N, d), Box::new(move || {
					let first = COUNTS.with(|c| c.borrow().len());
					let arr: [M; $N] = std::array::from_fn(|_| Mutex::new(Token::new()));
					macro_rules! body {
						($c:ident, $has_get_mut:expr) => {
							match d {
								Destroy::Drop => drop($c),
								Destroy::IntoChild => {
									let ch = $c.into_child();
									check_ids(&ch.iter().map(|l| unsafe_peek(l)).collect::<Vec<_>>(), first, "into_child");
								}
								Destroy::IntoInner => {
									let inner = $c.into_inner();
									check_ids(&inner.iter().map(|t| t.id).collect::<Vec<_>>(), first, "into_inner");
								}
								Destroy::IntoIterFull => {
									let ids: Vec<usize> = $c.into_iter().map(|l| l.into_inner().id).collect();
									check_ids(&ids, first, "into_iter");
								}
								Destroy::IntoIterPartial => {
									let mut it = $c.into_iter();
									let _ = it.next().map(|l| l.into_inner());
									drop(it);
								}
								Destroy::GetMutThenDrop => drop($c),
								Destroy::DropDuringUnwind => {
									let r = catch_unwind(AssertUnwindSafe(move || {
										let c = $c;
										let _g = c.lock(key());
										std::panic::resume_unwind(Box::new(1u8));
									}));
									expect(r.is_err(), "the panic propagates");
								}
								Destroy::LeakGuardThenDrop => {
									let g = $c.lock(key());
									std::mem::forget(g);
									drop($c);
								}
								Destroy::WriteThenIntoInner => {
									$c.scoped_lock(key(), |d| {
										for (i, t) in d.into_iter().enumerate() {
											t.val = 2000 + i as u64;
										}
									});
									let inner = $c.into_inner();
									for (i, t) in inner.iter().enumerate() {
										expect(t.val == 2000 + i as u64 && t.id == first + i, "array into_inner reflects the last write at the declared position");
									}
								}
							}
						};
					}
					match kind {
						"Owned" => {
							let mut c = OwnedLockCollection::new(arr);
							if d == Destroy::GetMutThenDrop {
								check_ids(&c.get_mut().iter().map(|t| t.id).collect::<Vec<_>>(), first, "get_mut");
							}
							body!(c, true)
						}
						"Boxed" => {
							let c = BoxedLockCollection::new(arr);
							body!(c, false)
						}
						_ => {
							let mut c = RetryingLockCollection::new(arr);
							if d == Destroy::GetMutThenDrop {
								check_ids(&c.get_mut().iter().map(|t| t.id).collect::<Vec<_>>(), first, "get_mut");
							}
							body!(c, true)
						}
					}
				})));
			}
		}
	};
}

pub fn cases() -> Vec<Case> {
	let mut out: Vec<Case> = vec![];
	for n in 0..=4usize {
		vec_kind_cases!(out, OwnedLockCollection, "Owned", n, lock, ms, M, gm);
		vec_kind_cases!(out, BoxedLockCollection, "Boxed", n, lock, ms, M, nogm);
		vec_kind_cases!(out, RetryingLockCollection, "Retrying", n, lock, ms, M, gm);
		vec_kind_cases!(out, OwnedLockCollection, "Owned", n, read, rs, R, gm);
		vec_kind_cases!(out, BoxedLockCollection, "Boxed", n, read, rs, R, nogm);
		vec_kind_cases!(out, RetryingLockCollection, "Retrying", n, read, rs, R, gm);
	}
	killed_cases!(out, OwnedLockCollection, "Owned", kms, "Mutex");
	killed_cases!(out, BoxedLockCollection, "Boxed", kms, "Mutex");
	killed_cases!(out, RetryingLockCollection, "Retrying", kms, "Mutex");
	killed_cases!(out, OwnedLockCollection, "Owned", krs, "RwLock");
	killed_cases!(out, BoxedLockCollection, "Boxed", krs, "RwLock");
	killed_cases!(out, RetryingLockCollection, "Retrying", krs, "RwLock");
	// other containers and wrappers around a killed lock
	out.push(("tuple / array / Poisonable / nested / borrowing collections over killed locks".to_string(), Box::new(|| {
		let first = COUNTS.with(|c| c.borrow().len());
		let mut m = kms(2, 0);
		let mut r = krs(2, 1);
		let t = (m.pop().unwrap(), r.pop().unwrap(), [m.pop().unwrap()], Poisonable::new(r.pop().unwrap()));
		// token ids: m[0]=first (killed), m[1]=first+1, r[0]=first+2, r[1]=first+3 (killed)
		let c = BoxedLockCollection::new(t);
		let (a, b, [x], p) = c.into_inner();
		expect([a.id, b.id, x.id] == [first + 1, first + 3, first], "Boxed<(Mutex, RwLock, [Mutex;1], Poisonable)> into_inner positions");
		expect(p.map_or_else(|e| e.into_inner().id, |t| t.id) == first + 2, "Poisonable position");
		let first = COUNTS.with(|c| c.borrow().len());
		let data = OwnedLockCollection::new(kms(2, 1));
		let loose = kms(2, 0);
		{
			let a = RefLockCollection::new(&data);
			let b = BoxedLockCollection::new_ref(&data);
			let c = RetryingLockCollection::new_ref(&data);
			let v: Vec<&KM> = loose.iter().collect();
			let d = RefLockCollection::try_new(&v);
			expect(d.is_some(), "Ref::try_new over distinct killed locks");
			let e = BoxedLockCollection::try_new(v.clone());
			expect(e.is_some(), "Boxed::try_new over distinct killed locks");
			let f = RetryingLockCollection::try_new(v.clone());
			expect(f.is_some(), "Retrying::try_new over distinct killed locks");
			drop((a, b, c, d, e, f));
		}
		let counts_now: u32 = COUNTS.with(|c| c.borrow()[first..].iter().sum());
		expect(counts_now == 0, "dropping borrowing collections over killed locks drops no value");
		drop(loose);
		let o = OwnedLockCollection::new((data, Poisonable::new(RetryingLockCollection::new(krs(1, 0)))));
		let (inner, p) = o.into_inner();
		check_ids(&inner.iter().map(|t| t.id).collect::<Vec<_>>(), first, "nested Owned<Vec> inside Owned tuple");
		expect(p.map_or_else(|e| e.into_inner()[0].id, |t| t[0].id) == first + 4, "nested Poisonable<Retrying> position");
	})));
	array_cases!(out, 0);
	array_cases!(out, 1);
	array_cases!(out, 2);
	array_cases!(out, 3);
	array_cases!(out, 4);
	// boxed slices
	for n in 0..=4usize {
		for kind in ["Owned", "Boxed", "Retrying"] {
			for d in [Destroy::Drop, Destroy::IntoChild, Destroy::IntoInner, Destroy::IntoIterFull, Destroy::LeakGuardThenDrop, Destroy::DropDuringUnwind] {
				out.push((format!("{}<Box<[RwLock]>>[{}] new -> {:?}", kind, n, d), Box::new(move || {
					let first = COUNTS.with(|c| c.borrow().len());
					let b: Box<[R]> = rs(n).into_boxed_slice();
					macro_rules! body {
						($c:ident) => {
							match d {
								Destroy::Drop => drop($c),
								Destroy::IntoChild => check_ids(&$c.into_child().iter().map(|l| unsafe_peek(l)).collect::<Vec<_>>(), first, "into_child"),
								Destroy::IntoInner => check_ids(&$c.into_inner().iter().map(|t| t.id).collect::<Vec<_>>(), first, "into_inner"),
								Destroy::IntoIterFull => check_ids(&$c.into_child().into_vec().into_iter().map(|l| l.into_inner().id).collect::<Vec<_>>(), first, "into_vec"),
								Destroy::DropDuringUnwind => {
									let r = catch_unwind(AssertUnwindSafe(move || {
										let c = $c;
										let _g = c.read(key());
										std::panic::resume_unwind(Box::new(1u8));
									}));
									expect(r.is_err(), "the panic propagates");
								}
								_ => {
									std::mem::forget($c.read(key()));
									drop($c);
								}
							}
						};
					}
					match kind {
						"Owned" => {
							let c = OwnedLockCollection::new(b);
							body!(c)
						}
						"Boxed" => {
							let c = BoxedLockCollection::new(b);
							body!(c)
						}
						_ => {
							let c = RetryingLockCollection::new(b);
							body!(c)
						}
					}
				})));
			}
		}
	}
	// tuples and nested shapes
	for kind in ["Owned", "Boxed", "Retrying"] {
		for d in [Destroy::Drop, Destroy::IntoChild, Destroy::IntoInner, Destroy::WriteThenIntoInner, Destroy::LeakGuardThenDrop, Destroy::DropDuringUnwind] {
			out.push((format!("{}<(Mutex,RwLock,Poisonable<Mutex>)> new -> {:?}", kind, d), Box::new(move || {
				let first = COUNTS.with(|c| c.borrow().len());
				let t = (Mutex::new(Token::new()), RwLock::new(Token::new()), Poisonable::new(Mutex::new(Token::new())));
				macro_rules! body {
					($c:ident) => {
						match d {
							Destroy::Drop => drop($c),
							Destroy::IntoChild => {
								let (a, b, p) = $c.into_child();
								check_ids(&[a.into_inner().id, b.into_inner().id, p.into_inner().unwrap().id], first, "tuple into_child");
							}
							Destroy::IntoInner => {
								let (a, b, p) = $c.into_inner();
								check_ids(&[a.id, b.id, p.unwrap().id], first, "tuple into_inner");
							}
							Destroy::WriteThenIntoInner => {
								$c.scoped_lock(key(), |d| {
									d.0.val = 31;
									d.1.val = 32;
									d.2.unwrap().val = 33;
								});
								let (a, b, p) = $c.into_inner();
								expect((a.val, b.val, p.unwrap().val) == (31, 32, 33), "tuple into_inner reflects the last write at the declared positions");
							}
							Destroy::DropDuringUnwind => {
								let r = catch_unwind(AssertUnwindSafe(move || {
									let c = $c;
									let _g = c.lock(key());
									std::panic::resume_unwind(Box::new(1u8));
								}));
								expect(r.is_err(), "the panic propagates");
							}
							_ => {
								std::mem::forget($c.lock(key()));
								drop($c);
							}
						}
					};
				}
				match kind {
					"Owned" => {
						let c = OwnedLockCollection::new(t);
						body!(c)
					}
					"Boxed" => {
						let c = BoxedLockCollection::new(t);
						body!(c)
					}
					_ => {
						let c = RetryingLockCollection::new(t);
						body!(c)
					}
				}
			})));
			out.push((format!("{}<(Owned<Vec<Mutex>>, Retrying<[RwLock;2]>, Mutex)> new -> {:?}", kind, d), Box::new(move || {
				let first = COUNTS.with(|c| c.borrow().len());
				let inner = (OwnedLockCollection::new(ms(2)), RetryingLockCollection::new([RwLock::new(Token::new()), RwLock::new(Token::new())]), Mutex::new(Token::new()));
				macro_rules! body {
					($c:ident) => {
						match d {
							Destroy::Drop => drop($c),
							Destroy::IntoChild => {
								let (a, b, m) = $c.into_child();
								let mut ids: Vec<usize> = a.into_inner().iter().map(|t| t.id).collect();
								ids.extend(b.into_inner().iter().map(|t| t.id));
								ids.push(m.into_inner().id);
								check_ids(&ids, first, "nested into_child");
							}
							Destroy::IntoInner => {
								let (a, b, m) = $c.into_inner();
								let mut ids: Vec<usize> = a.iter().map(|t| t.id).collect();
								ids.extend(b.iter().map(|t| t.id));
								ids.push(m.id);
								check_ids(&ids, first, "nested into_inner");
							}
							Destroy::WriteThenIntoInner => {
								$c.scoped_lock(key(), |d| {
									d.0[1].val = 41;
									d.1[0].val = 42;
									d.2.val = 43;
								});
								let (a, b, m) = $c.into_inner();
								expect((a[1].val, b[0].val, m.val) == (41, 42, 43), "nested into_inner reflects the last write at the declared positions");
							}
							Destroy::DropDuringUnwind => {
								let r = catch_unwind(AssertUnwindSafe(move || {
									let c = $c;
									let _g = c.lock(key());
									std::panic::resume_unwind(Box::new(1u8));
								}));
								expect(r.is_err(), "the panic propagates");
							}
							_ => {
								std::mem::forget($c.lock(key()));
								drop($c);
							}
						}
					};
				}
				match kind {
					"Owned" => {
						let c = OwnedLockCollection::new(inner);
						body!(c)
					}
					"Boxed" => {
						let c = BoxedLockCollection::new(inner);
						body!(c)
					}
					_ => {
						let c = RetryingLockCollection::new(inner);
						body!(c)
					}
				}
			})));
		}
	}
	// checked constructors that REJECT their input: the input (which owns a token) is dropped exactly once
	for kind in ["Boxed", "Retrying", "Ref"] {
		for n in 0..=3usize {
			out.push((format!("{}::try_new rejected input with owned member and duplicate refs [{}]", kind, n), Box::new(move || {
				let shared = Mutex::new(Token::new());
				let owned_extra = ms(n);
				let input = (Mutex::new(Token::new()), OwnedLockCollection::new(owned_extra), vec![&shared, &shared]);
				match kind {
					"Boxed" => expect(BoxedLockCollection::try_new(input).is_none(), "duplicate must be rejected"),
					"Retrying" => expect(RetryingLockCollection::try_new(input).is_none(), "duplicate must be rejected"),
					_ => {
						expect(RefLockCollection::try_new(&input).is_none(), "duplicate must be rejected");
						drop(input);
					}
				}
				drop(shared);
			})));
			out.push((format!("{}::try_new accepted input with owned members and refs [{}]", kind, n), Box::new(move || {
				let a = Mutex::new(Token::new());
				let b = Mutex::new(Token::new());
				let input = (Mutex::new(Token::new()), OwnedLockCollection::new(ms(n)), vec![&a, &b]);
				match kind {
					"Boxed" => {
						let c = BoxedLockCollection::try_new(input).expect("no duplicates");
						c.scoped_lock(key(), |d| d.0.val = 5);
						let ch = c.into_child();
						expect(ch.0.into_inner().val == 5, "into_child after try_new carries the last write");
					}
					"Retrying" => {
						let c = RetryingLockCollection::try_new(input).expect("no duplicates");
						drop(c.lock(key()));
						drop(c);
					}
					_ => {
						let c = RefLockCollection::try_new(&input).expect("no duplicates");
						drop(c.lock(key()));
						drop(c);
						drop(input);
					}
				}
			})));
		}
	}
	// default / extend
	out.push(("Owned/Boxed/Retrying::default over (Mutex, RwLock)".into(), Box::new(|| {
		let a = OwnedLockCollection::<(M, R)>::default();
		let b = BoxedLockCollection::<(M, R)>::default();
		let c = RetryingLockCollection::<(M, R)>::default();
		drop(a.into_inner());
		drop(b.into_child());
		drop(c);
	})));
	for n in 0..=3usize {
		out.push((format!("Owned/Retrying extend by {} then into_inner", n), Box::new(move || {
			let first = COUNTS.with(|c| c.borrow().len());
			let mut a = OwnedLockCollection::new(ms(2));
			a.extend(ms(n));
			check_ids(&a.into_inner().iter().map(|t| t.id).collect::<Vec<_>>(), first, "extend+into_inner");
			let first = COUNTS.with(|c| c.borrow().len());
			let mut b = RetryingLockCollection::new(rs(1));
			b.extend(rs(n));
			let g = b.read(key());
			expect(g.len() == 1 + n, "extended members are locked");
			drop(g);
			check_ids(&b.into_child().into_iter().map(|l| l.into_inner().id).collect::<Vec<_>>(), first, "extend+into_child");
		})));
	}
	// single locks and Poisonable
	for d in ["drop", "drop during unwind", "into_inner", "get_mut", "leak mutex guard", "leak rwlock guard", "leak poisonable guard", "poisoned into_inner", "poisoned into_child", "poisoned get_mut"] {
		out.push((format!("Mutex / RwLock / Poisonable: {}", d), Box::new(move || {
			let first = COUNTS.with(|c| c.borrow().len());
			let mut m = Mutex::new(Token::new());
			let mut r = RwLock::new(Token::new());
			let mut p = Poisonable::new(Mutex::new(Token::new()));
			let mut pc = Poisonable::new(OwnedLockCollection::new(ms(2)));
			m.scoped_lock(key(), |t| t.val = 61);
			r.scoped_write(key(), |t| t.val = 62);
			match d {
				"drop" => {}
				"drop during unwind" => {
					let r = catch_unwind(AssertUnwindSafe(move || {
						let (m, r, p, pc) = (m, r, p, pc);
						let _ = (&m, &r, &p, &pc);
						std::panic::resume_unwind(Box::new(1u8));
					}));
					expect(r.is_err(), "the panic propagates");
					return;
				}
				"into_inner" => {
					let (a, b, c) = (m.into_inner(), r.into_inner(), p.into_inner().unwrap());
					expect((a.val, b.val) == (61, 62) && (a.id, b.id, c.id) == (first, first + 1, first + 2), "into_inner returns the stored values");
					check_ids(&pc.into_inner().unwrap().iter().map(|t| t.id).collect::<Vec<_>>(), first + 3, "Poisonable<Owned>::into_inner");
					return;
				}
				"get_mut" => {
					expect(m.get_mut().val == 61 && r.get_mut().val == 62 && p.get_mut().unwrap().id == first + 2, "get_mut returns the stored values");
					let _: &mut Token = m.as_mut();
					expect(pc.get_mut().unwrap().len() == 2, "Poisonable<Owned>::get_mut");
				}
				"leak mutex guard" => std::mem::forget(m.lock(key())),
				"leak rwlock guard" => std::mem::forget(r.read(key())),
				"leak poisonable guard" => std::mem::forget(p.lock(key())),
				_ => {
					let _ = catch_unwind(AssertUnwindSafe(|| {
						let _g = p.lock(key()).unwrap();
						std::panic::resume_unwind(Box::new(0u8));
					}));
					let _ = catch_unwind(AssertUnwindSafe(|| {
						let _g = pc.lock(key()).unwrap();
						std::panic::resume_unwind(Box::new(0u8));
					}));
					expect(p.is_poisoned() && pc.is_poisoned(), "panic with a live guard poisons");
					match d {
						"poisoned into_inner" => {
							expect(p.into_inner().unwrap_err().into_inner().id == first + 2, "poisoned into_inner still returns the value");
							check_ids(&pc.into_inner().unwrap_err().into_inner().iter().map(|t| t.id).collect::<Vec<_>>(), first + 3, "poisoned Poisonable<Owned>::into_inner");
							return;
						}
						"poisoned into_child" => {
							expect(p.into_child().unwrap_err().into_inner().into_inner().id == first + 2, "poisoned into_child still returns the lock");
							drop(pc.into_child());
							return;
						}
						_ => {
							expect(p.get_mut().unwrap_err().into_inner().id == first + 2, "poisoned get_mut");
							expect(pc.child_mut().is_err(), "poisoned child_mut");
						}
					}
				}
			}
		})));
	}
	// trait constructors of the single locks and wrappers
	out.push(("Mutex/RwLock/Poisonable: Default and From, then into_inner".into(), Box::new(|| {
		let first = COUNTS.with(|c| c.borrow().len());
		let a = M::default();
		let b = R::default();
		let c = M::from(Token::new());
		let d = R::from(Token::new());
		let e = Poisonable::from(Mutex::new(Token::new()));
		let f: Poisonable<OwnedLockCollection<(M, R)>> = Poisonable::default();
		check_ids(&[a.into_inner().id, b.into_inner().id, c.into_inner().id, d.into_inner().id, e.into_inner().unwrap().id], first, "Default/From round trip");
		let (x, y) = f.into_inner().unwrap();
		check_ids(&[x.id, y.id], first + 5, "Poisonable::default round trip");
	})));
	// collections nested by value
	for d in [Destroy::Drop, Destroy::IntoChild, Destroy::IntoInner, Destroy::LeakGuardThenDrop] {
		out.push((format!("Boxed<Boxed<Vec<Mutex>>> / Retrying<Boxed<..>> / Owned<Retrying<..>> new -> {:?}", d), Box::new(move || {
			let first = COUNTS.with(|c| c.borrow().len());
			let a = BoxedLockCollection::new(BoxedLockCollection::new(ms(2)));
			let b = RetryingLockCollection::new(BoxedLockCollection::new(ms(2)));
			let c = OwnedLockCollection::new(RetryingLockCollection::new(ms(2)));
			match d {
				Destroy::Drop => {}
				Destroy::IntoChild => {
					check_ids(&a.into_child().into_child().iter().map(|l| unsafe_peek(l)).collect::<Vec<_>>(), first, "nested into_child");
					check_ids(&b.into_child().into_child().iter().map(|l| unsafe_peek(l)).collect::<Vec<_>>(), first + 2, "nested into_child");
					check_ids(&c.into_child().into_child().iter().map(|l| unsafe_peek(l)).collect::<Vec<_>>(), first + 4, "nested into_child");
				}
				Destroy::IntoInner => {
					check_ids(&a.into_inner().iter().map(|t| t.id).collect::<Vec<_>>(), first, "nested into_inner");
					check_ids(&b.into_inner().iter().map(|t| t.id).collect::<Vec<_>>(), first + 2, "nested into_inner");
					check_ids(&c.into_inner().iter().map(|t| t.id).collect::<Vec<_>>(), first + 4, "nested into_inner");
				}
				_ => {
					std::mem::forget(a.lock(key()));
				}
			}
		})));
	}
	// get_mut / child_mut / as_mut / iter_mut positions for every container shape (values written through them stick)
	out.push(("get_mut positions: boxed slice, array, tuple, nested, &mut, Poisonable".into(), Box::new(|| {
		use happylock::lockable::LockableGetMut;
		let first = COUNTS.with(|c| c.borrow().len());
		let mut a = OwnedLockCollection::new(rs(3).into_boxed_slice());
		check_ids(&a.get_mut().iter().map(|t| t.id).collect::<Vec<_>>(), first, "Owned<Box<[RwLock]>>::get_mut");
		a.get_mut()[2].val = 71;
		expect(a.into_inner()[2].val == 71, "write through get_mut sticks (boxed slice)");
		let first = COUNTS.with(|c| c.borrow().len());
		let mut b = RetryingLockCollection::new([Mutex::new(Token::new()), Mutex::new(Token::new()), Mutex::new(Token::new())]);
		check_ids(&b.get_mut().iter().map(|t| t.id).collect::<Vec<_>>(), first, "Retrying<[Mutex;3]>::get_mut");
		b.get_mut()[1].val = 72;
		let mut n = 0;
		for (i, m) in b.iter_mut().enumerate() {
			expect(m.get_mut().id == first + i, "iter_mut yields the locks in declared order");
			n += 1;
		}
		expect(n == 3, "iter_mut yields every lock");
		expect(b.child_mut()[1].get_mut().val == 72, "child_mut sees the write");
		expect(b.into_inner()[1].val == 72, "write through get_mut sticks (array)");
		let first = COUNTS.with(|c| c.borrow().len());
		let mut c = OwnedLockCollection::new((Mutex::new(Token::new()), RwLock::new(Token::new()), Poisonable::new(Mutex::new(Token::new())), ms(2), [RwLock::new(Token::new())]));
		{
			let g = c.get_mut();
			let mut ids = vec![g.0.id, g.1.id, g.2.unwrap().id];
			ids.extend(g.3.iter().map(|t| t.id));
			ids.push(g.4[0].id);
			check_ids(&ids, first, "5-tuple get_mut");
		}
		{
			let g = c.get_mut();
			g.3[1].val = 73;
		}
		let inner = c.into_inner();
		expect(inner.3[1].val == 73, "write through nested get_mut sticks");
		let first = COUNTS.with(|c| c.borrow().len());
		let mut m1 = Mutex::new(Token::new());
		let mut r1 = RwLock::new(Token::new());
		{
			let mut by_ref = (&mut m1, &mut r1);
			let g = LockableGetMut::get_mut(&mut by_ref);
			check_ids(&[g.0.id, g.1.id], first, "(&mut Mutex, &mut RwLock) get_mut");
			g.1.val = 74;
		}
		expect(r1.into_inner().val == 74, "write through &mut get_mut sticks");
		let first = COUNTS.with(|c| c.borrow().len());
		let mut p = Poisonable::new(RetryingLockCollection::new(rs(2)));
		check_ids(&p.get_mut().unwrap().iter().map(|t| t.id).collect::<Vec<_>>(), first, "Poisonable<Retrying<Vec>>::get_mut");
		p.child_mut().unwrap().get_mut()[0].val = 75;
		expect(p.into_inner().unwrap()[0].val == 75, "write through Poisonable::child_mut sticks");
		let first = COUNTS.with(|c| c.borrow().len());
		let mut o = OwnedLockCollection::new(ms(3));
		let v: &mut Vec<M> = o.as_mut();
		v[2].get_mut().val = 76;
		o.child_mut()[0].get_mut().val = 77;
		let inner = o.into_inner();
		expect(inner[2].val == 76 && inner[0].val == 77 && inner[1].id == first + 1, "as_mut / child_mut reach the stored locks");
	})));
	// Ref / new_ref collections do not own: dropping them drops nothing; the data drops once
	for n in 0..=3usize {
		out.push((format!("Ref::new / Boxed::new_ref / Retrying::new_ref over [{}] locks", n), Box::new(move || {
			let first = COUNTS.with(|c| c.borrow().len());
			let data = OwnedLockCollection::new(ms(n));
			{
				let a = RefLockCollection::new(&data);
				let b = BoxedLockCollection::new_ref(&data);
				let c = RetryingLockCollection::new_ref(&data);
				drop(a.lock(key()));
				drop(b.lock(key()));
				c.scoped_lock(key(), |_| ());
				let counts_now: u32 = COUNTS.with(|c| c.borrow()[first..].iter().sum());
				expect(counts_now == 0, "nothing dropped while only borrowed");
				drop(a);
				let _ = b.into_child();
				let _ = c.into_child();
			}
			let counts_now: u32 = COUNTS.with(|c| c.borrow()[first..].iter().sum());
			expect(counts_now == 0, "dropping borrowing collections drops no value");
			drop(data);
		})));
	}
	out
}

/// Child mode: run every case, journal to stdout.
pub fn child() -> ! {
	let cs = cases();
	let start: usize = std::env::args().nth(2).and_then(|s| s.parse().ok()).unwrap_or(0);
	let stdout = std::io::stdout();
	{
		let mut o = stdout.lock();
		let _ = writeln!(o, "CASES {}", cs.len());
		let _ = o.flush();
	}
	for (i, (name, f)) in cs.iter().enumerate() {
		if i < start {
			continue;
		}
		{
			let mut o = stdout.lock();
			let _ = writeln!(o, "BEGIN {} {}", i, name);
			let _ = o.flush();
		}
		// a fresh thread per case (fresh thread-local counters): leaked guards leak their thread key
		let r = std::thread::scope(|s| {
			s.spawn(|| {
				let r = catch_unwind(AssertUnwindSafe(f));
				let counts = COUNTS.with(|c| c.borrow().clone());
				let problems = PROBLEMS.with(|p| p.borrow().clone());
				(r.is_ok(), counts, problems)
			})
			.join()
		});
		let mut o = stdout.lock();
		match r {
			Ok((ok, counts, problems)) => {
				let bad: Vec<(usize, u32)> = counts.iter().copied().enumerate().filter(|(_, c)| *c != 1).collect();
				let _ = writeln!(o, "END {} tokens={} panicked={} bad={:?} problems={:?}", i, counts.len(), !ok, bad, problems);
			}
			Err(_) => {
				let _ = writeln!(o, "END {} tokens=0 panicked=true bad=[] problems=[\"thread died\"]", i);
			}
		}
		let _ = o.flush();
	}
	let _ = Rc::new(0);
	std::process::exit(0);
}

pub fn check(tier: &str) -> ! {
	let mut rep = Report::new("C16", tier, "exploration");
	rep.assumptions = vec!["payloads are tokens with a side table of drop counters (production parking_lot raw locks); a case runs on a fresh thread inside a child process so that a double free cannot take the checker down".into()];
	let exe = std::env::current_exe().expect("exe");
	// The child journals BEGIN/END per case. A child that dies or stops journalling (a hang: corrupted production
	// locks block for ever) is killed; the case it was in is reported and a new child resumes behind it.
	let mut text = String::new();
	let mut start = 0usize;
	let mut total_cases = usize::MAX;
	let mut dead_cases: Vec<(String, String)> = vec![];
	let mut last_status;
	while start < total_cases {
		use std::io::BufRead;
		let mut ch = std::process::Command::new(&exe).arg("C16-child").arg(start.to_string()).stdout(std::process::Stdio::piped()).stderr(std::process::Stdio::piped()).spawn().expect("spawn child");
		let so = ch.stdout.take().unwrap();
		let (tx, rx) = std::sync::mpsc::channel::<String>();
		let reader = std::thread::spawn(move || {
			for l in std::io::BufReader::new(so).lines().map_while(Result::ok) {
				if tx.send(l).is_err() {
					break;
				}
			}
		});
		let mut current: Option<(usize, String)> = None;
		let mut hung = false;
		loop {
			match rx.recv_timeout(std::time::Duration::from_secs(25)) {
				Ok(l) => {
					if let Some(n) = l.strip_prefix("CASES ") {
						total_cases = n.trim().parse().unwrap_or(0);
					} else if let Some(rest) = l.strip_prefix("BEGIN ") {
						let (i, name) = rest.split_once(' ').unwrap_or((rest, ""));
						current = Some((i.parse().unwrap_or(0), name.to_string()));
					} else if l.starts_with("END ") {
						if let Some((i, _)) = &current {
							start = i + 1;
						}
						current = None;
					}
					text.push_str(&l);
					text.push('\n');
				}
				Err(std::sync::mpsc::RecvTimeoutError::Timeout) => {
					hung = true;
					let _ = ch.kill();
					break;
				}
				Err(std::sync::mpsc::RecvTimeoutError::Disconnected) => break,
			}
		}
		let st = ch.wait();
		let _ = reader.join();
		last_status = format!("{:?}", st);
		match current {
			Some((i, name)) => {
				dead_cases.push((name, if hung { "no progress for 25 s (hang); killed".to_string() } else { format!("the child process died ({})", last_status) }));
				text.push_str("ABANDONED\n");
				start = i + 1;
				if dead_cases.len() >= 6 {
					// enough evidence; every further hang costs the watchdog interval
					rep.notes.push(format!("stopped after {} crashed / hung cases; cases {}.. were not run", dead_cases.len(), start));
					rep.exhaustive = false;
					break;
				}
			}
			None => {
				if start < total_cases && !hung && total_cases != usize::MAX {
					// the child ended between cases without finishing: do not loop for ever
					rep.machinery.push(format!("C16 child ended early at case {} of {} ({})", start, total_cases, last_status));
					break;
				}
				if total_cases == usize::MAX {
					rep.machinery.push(format!("C16 child produced no journal ({})", last_status));
					break;
				}
			}
		}
	}
	for (name, why) in &dead_cases {
		rep.violation(Viol { prop: "C16".into(), key: format!("crash|{}", name.split('[').next().unwrap_or("")), detail: format!("case `{}`: {}", name, why), replay: json!({"kind": "drops", "case": name}) });
	}
	let mut begun: Option<(usize, String)> = None;
	let mut kinds = BTreeSet::new();
	let mut tokens_total = 0u64;
	for line in text.lines() {
		if line == "ABANDONED" {
			begun = None;
			continue;
		}
		if let Some(rest) = line.strip_prefix("BEGIN ") {
			let (i, name) = rest.split_once(' ').unwrap_or((rest, ""));
			begun = Some((i.parse().unwrap_or(0), name.to_string()));
		} else if let Some(rest) = line.strip_prefix("END ") {
			let (_, name) = begun.take().unwrap_or((0, String::new()));
			rep.add("evaluations", 1);
			let tokens: u64 = rest.split("tokens=").nth(1).and_then(|s| s.split(' ').next()).and_then(|s| s.parse().ok()).unwrap_or(0);
			tokens_total += tokens;
			if tokens > 0 {
				kinds.insert(name.clone());
			}
			let bad = rest.split("bad=").nth(1).and_then(|s| s.split(" problems=").next()).unwrap_or("[]");
			let problems = rest.split("problems=").nth(1).unwrap_or("[]");
			let panicked = rest.contains("panicked=true");
			let key_name: String = name.split('[').next().unwrap_or("").trim().to_string() + name.split("->").nth(1).unwrap_or("");
			if bad != "[]" {
				rep.violation(Viol { prop: "C16".into(), key: format!("drop-count|{}", key_name), detail: format!("case `{}`: tokens not dropped exactly once (token index, drop count): {}", name, bad), replay: json!({"kind": "drops", "case": name}) });
			}
			if problems != "[]" {
				rep.violation(Viol { prop: "C16".into(), key: format!("round-trip|{}", key_name), detail: format!("case `{}`: {}", name, problems), replay: json!({"kind": "drops", "case": name}) });
			}
			if panicked {
				rep.violation(Viol { prop: "C16".into(), key: format!("panicked|{}", key_name), detail: format!("case `{}` panicked", name), replay: json!({"kind": "drops", "case": name}) });
			}
			if rep.samples.len() < 3 && tokens >= 3 {
				rep.sample(json!({"case": name, "tokens": tokens, "all_dropped_exactly_once": bad == "[]"}));
			}
		}
	}
	let _ = begun;
	rep.set("distinct_nontrivial", kinds.len() as u64);
	rep.set("tokens_tracked", tokens_total);
	rep.set("rule", "every owning shape (Owned / Boxed / Retrying x Vec / array / boxed slice / tuple / nested, sizes 0..4, Mutex and RwLock leaves, Poisonable) x construction path (new, from, from_iter, try_new accepted, try_new REJECTED with an owned member, default, extend, new_ref / Ref::new borrowing) x destruction path (drop, into_child, into_inner, into_iter fully / partially consumed, get_mut, leaked guard then drop, write under lock then into_inner); oracle: every token's drop counter is exactly 1 and returned values sit at the declared positions with the last written value. Non-trivial = cases that track at least one token");
	rep.finish()
}
