//! Program families for the concurrent explorer. Every family is a finite set defined by a
//! generator and is enumerated completely.

use crate::interp::{Body, Flavour, Program, Step, FLAVOURS};
use crate::rt::Policy;
use crate::spec::{Kind, Native, Spec, KINDS};

pub const POLICIES: [Policy; 2] = [Policy::RP, Policy::WP];

pub fn perms(n: usize) -> Vec<Vec<usize>> {
	if n == 0 {
		return vec![vec![]];
	}
	let mut out = vec![];
	for p in perms(n - 1) {
		for i in 0..=p.len() {
			let mut q = p.clone();
			q.insert(i, n - 1);
			out.push(q);
		}
	}
	out.sort();
	out
}

fn rs(ix: &[usize]) -> Vec<Spec> {
	ix.iter().map(|i| Spec::R(*i)).collect()
}

fn acq(target: usize, write: bool, flavour: Flavour, body: Body) -> Step {
	Step::Acq { target, write, flavour, body }
}

/// Family A: two threads, one acquisition each over the same k rwlock leaves.
pub fn fam_a(k: usize, all_arrangements: bool, body: Body) -> Vec<Program> {
	let mut arrs = perms(k);
	if !all_arrangements {
		let id: Vec<usize> = (0..k).collect();
		let rev: Vec<usize> = (0..k).rev().collect();
		arrs.retain(|a| *a == id || *a == rev);
	}
	let mut opts = vec![];
	for kind in KINDS {
		for a in &arrs {
			for write in [true, false] {
				opts.push((kind, a.clone(), write));
			}
		}
	}
	let mut out = vec![];
	for policy in POLICIES {
		for i in 0..opts.len() {
			for j in i..opts.len() {
				let (k1, a1, w1) = &opts[i];
				let (k2, a2, w2) = &opts[j];
				if policy == Policy::WP && !*w1 && !*w2 {
					// no writer: WP and RP coincide
					continue;
				}
				out.push(Program {
					specs: vec![Spec::Coll(*k1, rs(a1)), Spec::Coll(*k2, rs(a2))],
					threads: vec![vec![acq(0, *w1, Flavour::Guard, body)], vec![acq(1, *w2, Flavour::Guard, body)]],
					policy,
					name: format!("A{}", k),
					menu: vec![],
				});
			}
		}
	}
	out
}

/// Family B: two threads, two leaves listed in opposite orders, every flavour.
pub fn fam_b(body: Body, modes: &[(bool, bool)]) -> Vec<Program> {
	let mut opts = vec![];
	for kind in KINDS {
		for f in FLAVOURS {
			opts.push((Some(kind), f));
		}
	}
	for f in FLAVOURS {
		opts.push((None, f)); // an owned unit referenced by a boxed collection next to nothing: Boxed::new_ref(&Owned)
	}
	let mut out = vec![];
	for policy in POLICIES {
		for (w1, w2) in modes {
			if policy == Policy::WP && !*w1 && !*w2 {
				continue;
			}
			for i in 0..opts.len() {
				for j in i..opts.len() {
					let (k1, f1) = opts[i];
					let (k2, f2) = opts[j];
					if k1.is_none() != k2.is_none() {
						continue;
					}
					let (s1, s2) = match (k1, k2) {
						(Some(a), Some(b)) => (Spec::Coll(a, rs(&[0, 1])), Spec::Coll(b, rs(&[1, 0]))),
						_ => (Spec::Native(Native::NewOW(Kind::Boxed, 0)), Spec::OW(0)),
					};
					out.push(Program { specs: vec![s1, s2], threads: vec![vec![acq(0, *w1, f1, body)], vec![acq(1, *w2, f2, body)]], policy, name: "B".into(), menu: vec![] });
				}
			}
		}
	}
	out
}

/// Family C: rings of three threads over three leaves (dining philosophers).
pub fn fam_c(body: Body, write_only: bool) -> Vec<Program> {
	// per-thread option: (kind, reversed) or two consecutive single acquisitions
	#[derive(Clone, Copy)]
	enum Opt {
		Coll(Kind, bool),
		Singles,
	}
	let mut opts = vec![];
	for k in KINDS {
		opts.push(Opt::Coll(k, false));
		opts.push(Opt::Coll(k, true));
	}
	opts.push(Opt::Singles);
	let mut out = vec![];
	let modes: Vec<[bool; 3]> = if write_only { vec![[true; 3]] } else { vec![[true; 3], [true, true, false], [true, false, false]] };
	for policy in POLICIES {
		for m in &modes {
			if policy == Policy::WP && m.iter().all(|w| *w) {
				continue; // no shared acquisitions: policies coincide
			}
			for a in 0..opts.len() {
				for b in 0..opts.len() {
					for c in 0..opts.len() {
						let choice = [opts[a], opts[b], opts[c]];
						let mut specs = vec![];
						let mut threads = vec![];
						for (i, o) in choice.iter().enumerate() {
							let l0 = i;
							let l1 = (i + 1) % 3;
							match o {
								Opt::Coll(k, rev) => {
									let ix = if *rev { vec![l1, l0] } else { vec![l0, l1] };
									specs.push(Spec::Coll(*k, rs(&ix)));
									threads.push(vec![acq(specs.len() - 1, m[i], Flavour::Guard, body)]);
								}
								Opt::Singles => {
									specs.push(Spec::R(l0));
									specs.push(Spec::R(l1));
									threads.push(vec![acq(specs.len() - 2, m[i], Flavour::Guard, body), acq(specs.len() - 1, m[i], Flavour::ScopedLent, body)]);
								}
							}
						}
						out.push(Program { specs, threads, policy, name: "C".into(), menu: vec![] });
					}
				}
			}
		}
	}
	out
}

/// Catalogue of nested / mixed shapes over r0..r2, OW0, PR0, m0, m1 used by family N.
pub fn nested_specs() -> Vec<Spec> {
	use Kind::*;
	let r = |i| Spec::R(i);
	let c = |k, v: Vec<Spec>| Spec::Coll(k, v);
	vec![
		c(Boxed, vec![r(2), r(1), r(0)]),
		c(Retry, vec![r(1), r(2)]),
		c(Boxed, vec![c(Boxed, vec![r(2), r(0)]), r(1)]),
		c(Boxed, vec![r(1), c(Retry, vec![r(2), r(0)])]),
		c(Ref, vec![c(Ref, vec![r(2), r(1)]), r(0)]),
		c(Retry, vec![c(Boxed, vec![r(2), r(0)]), r(1)]),
		c(Retry, vec![r(2), c(Retry, vec![r(1), r(0)])]),
		c(Ref, vec![r(1), c(Retry, vec![r(0)]), r(2)]),
		c(Boxed, vec![Spec::OW(0), r(0)]),
		c(Ref, vec![r(1), Spec::OW(0)]),
		c(Retry, vec![r(0), Spec::OW(0), r(1)]),
		Spec::OW(0),
		Spec::Native(Native::NewOW(Ref, 0)),
		c(Boxed, vec![Spec::PR(0), r(0)]),
		c(Retry, vec![r(0), Spec::PR(0)]),
		Spec::PR(0),
		Spec::Pois(Box::new(c(Boxed, vec![r(1), r(0)]))),
		Spec::Pois(Box::new(c(Retry, vec![r(0), Spec::PR(0)]))),
		c(Ref, vec![Spec::Pois(Box::new(c(Ref, vec![r(2), r(0)]))), r(1)]),
		Spec::Native(Native::Arr3(Boxed, [2, 0, 1])),
		Spec::Native(Native::Slice(Retry, vec![1, 0])),
		Spec::Native(Native::BoxedTupRRP(1, 0, 0)),
		r(0),
	]
}

pub fn mixed_specs() -> Vec<Spec> {
	use Kind::*;
	let c = |k, v: Vec<Spec>| Spec::Coll(k, v);
	vec![
		c(Boxed, vec![Spec::M(0), Spec::R(0)]),
		c(Retry, vec![Spec::R(0), Spec::M(0)]),
		c(Ref, vec![Spec::M(1), Spec::M(0)]),
		c(Boxed, vec![Spec::PM(0), Spec::M(0)]),
		c(Retry, vec![Spec::M(0), Spec::PM(0), Spec::R(0)]),
		c(Boxed, vec![c(Retry, vec![Spec::M(1), Spec::M(0)]), Spec::R(0)]),
		Spec::Native(Native::TupMR(Boxed, 0, 0)),
		Spec::Native(Native::TupMR(Retry, 0, 0)),
		Spec::Native(Native::BoxedTupVecs(vec![1, 0], vec![0])),
		Spec::M(0),
		Spec::PM(0),
		Spec::PPM,
		Spec::Pois(Box::new(c(Boxed, vec![Spec::M(0), Spec::R(0)]))),
	]
}

/// Family N: all unordered pairs of catalogue shapes, one acquisition per thread.
pub fn fam_pairs_of(specs: &[Spec], name: &str, body: Body, flavours: &[Flavour]) -> Vec<Program> {
	let mut out = vec![];
	for policy in POLICIES {
		for i in 0..specs.len() {
			for j in i..specs.len() {
				let (s1, s2) = (&specs[i], &specs[j]);
				// skip pairs that share no leaf and no owned unit: nothing can collide
				let l1 = s1.arena_leaves();
				let l2 = s2.arena_leaves();
				if !l1.iter().any(|l| l2.contains(l)) {
					continue;
				}
				let mut modes = vec![(true, true)];
				if s2.sharable() {
					modes.push((true, false));
				}
				if s1.sharable() && s2.sharable() {
					modes.push((false, false));
				}
				if s1.sharable() && i != j {
					modes.push((false, true));
				}
				for (w1, w2) in modes {
					if policy == Policy::WP && w1 && w2 {
						continue;
					}
					if policy == Policy::RP && !w1 && !w2 {
						continue;
					}
					for f in flavours {
						out.push(Program { specs: vec![s1.clone(), s2.clone()], threads: vec![vec![acq(0, w1, *f, body)], vec![acq(1, w2, Flavour::Guard, body)]], policy, name: name.into(), menu: vec![] });
					}
				}
			}
		}
	}
	out
}

/// Family D: two threads, 2-3 acquisitions each over three leaves, mixing singles, collections,
/// Poisonable wrappers, and a try that may fail followed by a blocking acquisition with the returned key.
pub fn fam_d(body: Body) -> Vec<Program> {
	use Kind::*;
	let c = |k, v: Vec<Spec>| Spec::Coll(k, v);
	let specs = vec![
		Spec::R(0),                                     // 0
		Spec::R(1),                                     // 1
		c(Boxed, rs(&[1, 0])),                           // 2
		c(Retry, rs(&[0, 2, 1])),                        // 3
		c(Ref, rs(&[2, 1])),                             // 4
		Spec::PR(0),                                    // 5
		c(Boxed, vec![Spec::PR(0), Spec::R(2)]),         // 6
		Spec::Pois(Box::new(c(Retry, rs(&[2, 0])))),     // 7
	];
	// thread scripts: (target, write, flavour)
	let scripts: Vec<Vec<(usize, bool, Flavour)>> = vec![
		vec![(0, true, Flavour::Guard), (2, true, Flavour::Guard)],
		vec![(2, true, Flavour::Try), (3, true, Flavour::Guard)],
		vec![(3, true, Flavour::ScopedTryLent), (4, false, Flavour::ScopedLent), (1, true, Flavour::GuardUnlock)],
		vec![(1, false, Flavour::Guard), (3, false, Flavour::Guard)],
		vec![(5, true, Flavour::Try), (6, true, Flavour::ScopedOwned)],
		vec![(7, true, Flavour::Guard), (0, false, Flavour::Try), (4, true, Flavour::Guard)],
		vec![(6, false, Flavour::ScopedTryOwned), (7, false, Flavour::GuardUnlock)],
		vec![(4, true, Flavour::GuardUnlock), (2, false, Flavour::Try), (0, true, Flavour::ScopedOwned)],
	];
	let mut out = vec![];
	for policy in POLICIES {
		for i in 0..scripts.len() {
			for j in i..scripts.len() {
				let mk = |s: &Vec<(usize, bool, Flavour)>| s.iter().map(|(t, w, f)| acq(*t, *w, *f, body)).collect::<Vec<_>>();
				out.push(Program { specs: specs.clone(), threads: vec![mk(&scripts[i]), mk(&scripts[j])], policy, name: "D".into(), menu: vec![] });
			}
		}
	}
	out
}

/// Family E (thorough): three threads x two acquisitions over four leaves.
pub fn fam_e3(body: Body) -> Vec<Program> {
	use Kind::*;
	let c = |k, v: Vec<Spec>| Spec::Coll(k, v);
	let specs = vec![c(Boxed, rs(&[3, 0])), c(Retry, rs(&[1, 0])), c(Ref, rs(&[2, 1])), c(Retry, rs(&[2, 3])), c(Boxed, rs(&[3, 1, 2])), Spec::R(0)];
	let scripts: Vec<Vec<(usize, bool)>> = vec![vec![(0, true), (1, true)], vec![(1, true), (2, false)], vec![(2, true), (3, true)], vec![(3, false), (0, true)], vec![(4, true), (5, true)], vec![(5, false), (4, false)]];
	let mut out = vec![];
	for policy in POLICIES {
		for i in 0..scripts.len() {
			for j in i..scripts.len() {
				for k in j..scripts.len() {
					let mk = |s: &Vec<(usize, bool)>| s.iter().map(|(t, w)| acq(*t, *w, Flavour::Guard, body)).collect::<Vec<_>>();
					out.push(Program { specs: specs.clone(), threads: vec![mk(&scripts[i]), mk(&scripts[j]), mk(&scripts[k])], policy, name: "E3".into(), menu: vec![] });
				}
			}
		}
	}
	out
}

/// Family E4 (thorough, preemption-bounded): rings of four threads over n leaves.
pub fn fam_e4(n: usize, body: Body) -> Vec<Program> {
	let mut out = vec![];
	let kinds = [Kind::Boxed, Kind::Retry];
	for policy in POLICIES {
		for mask in 0..16u32 {
			for rev in [0u32, 0b0101, 0b1111] {
				for writes in [0b1111u32, 0b1010] {
					if policy == Policy::WP && writes == 0b1111 {
						continue;
					}
					let mut specs = vec![];
					let mut threads = vec![];
					for i in 0..4 {
						let l0 = i % n;
						let l1 = (i + 1) % n;
						if l0 == l1 {
							continue;
						}
						let k = kinds[((mask >> i) & 1) as usize];
						let ix = if (rev >> i) & 1 == 1 { vec![l1, l0] } else { vec![l0, l1] };
						specs.push(Spec::Coll(k, rs(&ix)));
						threads.push(vec![acq(specs.len() - 1, (writes >> i) & 1 == 1, Flavour::Guard, body)]);
					}
					out.push(Program { specs, threads, policy, name: format!("E4-{}", n), menu: vec![] });
				}
			}
		}
	}
	out
}

/// Re-instantiate a family with a panic in critical section `(thread, step)` for every such section (C11).
pub fn with_panics(progs: &[Program]) -> Vec<Program> {
	let mut out = vec![];
	for p in progs {
		for (ti, t) in p.threads.iter().enumerate() {
			for (si, s) in t.iter().enumerate() {
				if let Step::Acq { target, write, flavour, .. } = s {
					let mut q = p.clone();
					q.threads[ti][si] = Step::Acq { target: *target, write: *write, flavour: *flavour, body: Body::PANIC };
					q.name = format!("{}+panic", p.name);
					out.push(q);
				}
			}
		}
	}
	out
}

/// Family P (C10, concurrent part): one thread panics inside a hold that covers a Poisonable while the
/// other acquires it by some route / queries / clears concurrently.
pub fn fam_poison(thorough: bool) -> Vec<Program> {
	let mut out = vec![];
	// targets: 0 = the Poisonable itself, 1 = a collection containing it next to a plain leaf, 2 = the plain leaf
	let mut target_sets: Vec<Vec<Spec>> = vec![];
	for k in KINDS {
		target_sets.push(vec![Spec::PR(0), Spec::Coll(k, vec![Spec::R(1), Spec::PR(0)]), Spec::R(1)]);
		target_sets.push(vec![Spec::Pois(Box::new(Spec::Coll(k, vec![Spec::R(1), Spec::R(0)]))), Spec::Coll(Kind::Boxed, vec![Spec::R(0), Spec::R(1)]), Spec::R(1)]);
	}
	target_sets.push(vec![Spec::PM(0), Spec::Coll(Kind::Retry, vec![Spec::PM(0), Spec::M(1)]), Spec::M(1)]);
	target_sets.push(vec![Spec::PPR, Spec::Coll(Kind::Boxed, vec![Spec::PPR, Spec::R(1)]), Spec::R(1)]);
	let panic_flavours: Vec<Flavour> = if thorough { FLAVOURS.to_vec() } else { vec![Flavour::Guard, Flavour::ScopedLent, Flavour::ScopedTryOwned] };
	for specs in &target_sets {
		let sharable = specs[0].sharable();
		for pt in [0usize, 1] {
			// wrapper-of-collection sets: target 1 is a plain collection over the same leaves (no poisonable inside)
			for pw in [true, false] {
				if !pw && !sharable {
					continue;
				}
				for pf in &panic_flavours {
					let t0 = vec![acq(pt, pw, *pf, Body::PANIC), Step::IsPoisoned(0)];
					let observers: Vec<Vec<Step>> = vec![
						vec![acq(0, true, Flavour::Guard, Body::TOUCH), Step::IsPoisoned(0)],
						vec![acq(1, true, Flavour::ScopedLent, Body::TOUCH), Step::IsPoisoned(0)],
						vec![acq(0, sharable && false, Flavour::Try, Body::TOUCH)].into_iter().filter(|_| true).collect(),
						vec![Step::ClearPoison(0), acq(0, true, Flavour::Guard, Body::TOUCH)],
						vec![Step::IsPoisoned(0), acq(2, true, Flavour::Guard, Body::TOUCH), acq(1, true, Flavour::Guard, Body::TOUCH)],
					];
					let mut observers = observers;
					// blocking shared acquisitions that may already be waiting when the flag changes
					observers.push(vec![acq(0, false, Flavour::Guard, Body::TOUCH)]);
					observers.push(vec![acq(0, false, Flavour::ScopedLent, Body::TOUCH), Step::IsPoisoned(0)]);
					// every remaining way of asking: exclusive try, scoped tries in both modes, explicit unlock
					observers.push(vec![acq(0, true, Flavour::Try, Body::TOUCH)]);
					observers.push(vec![acq(0, true, Flavour::ScopedTryLent, Body::TOUCH), acq(0, false, Flavour::ScopedTryOwned, Body::TOUCH)]);
					if thorough {
						observers.push(vec![acq(0, false, Flavour::GuardUnlock, Body::TOUCH), acq(0, true, Flavour::GuardUnlock, Body::TOUCH)]);
						observers.push(vec![acq(0, true, Flavour::ScopedOwned, Body::TOUCH), acq(0, false, Flavour::ScopedOwned, Body::TOUCH)]);
						observers.push(vec![acq(1, true, Flavour::Try, Body::TOUCH), acq(1, false, Flavour::ScopedTryLent, Body::TOUCH)]);
					}
					for ob in observers {
						let ob: Vec<Step> = ob
							.into_iter()
							.map(|st| match st {
								Step::Acq { target, write: false, flavour, body } if !sharable => Step::Acq { target, write: true, flavour, body },
								other => other,
							})
							.collect();
						out.push(Program { specs: specs.clone(), threads: vec![t0.clone(), ob], policy: Policy::RP, name: "P".into(), menu: vec![] });
					}
				}
			}
		}
	}
	// the holder repairs: T0 poisons, then clears the flag inside a later exclusive section; T1 acquires meanwhile
	for specs in &target_sets {
		let sharable = specs[0].sharable();
		for f1 in [Flavour::Guard, Flavour::Try, Flavour::ScopedLent] {
			for w1 in [true, false] {
				if !w1 && !sharable {
					continue;
				}
				let t0 = vec![acq(0, true, Flavour::Guard, Body::PANIC), acq(0, true, Flavour::Guard, Body::CLEAR)];
				let t1 = vec![acq(0, w1, f1, Body::TOUCH), Step::IsPoisoned(0)];
				out.push(Program { specs: specs.clone(), threads: vec![t0, t1], policy: Policy::RP, name: "P".into(), menu: vec![] });
			}
		}
	}
	out
}

/// Family R (C09): a retrying acquisition against threads that hold or acquire overlapping leaves.
pub fn fam_c09(thorough: bool) -> Vec<Program> {
	let mut out = vec![];
	let maxn = if thorough { 4 } else { 3 };
	let body = Body { touch: true, yield_mid: false, panic: false, clear: false, rekey: false };
	for policy in POLICIES {
		for n in 1..=maxn {
			for arr in perms(n) {
				for w0 in [true, false] {
					let t0spec = Spec::Coll(Kind::Retry, rs(&arr));
					let t0 = |f: Flavour| vec![acq(0, w0, f, body)];
					// opponents over the same leaves
					let mut opp: Vec<(Vec<Spec>, Vec<Vec<Step>>)> = vec![];
					// each single leaf held exclusively / shared by one other thread
					for i in 0..n {
						for w1 in [true, false] {
							opp.push((vec![Spec::R(i)], vec![vec![acq(1, w1, Flavour::Guard, body)]]));
						}
					}
					if n >= 2 {
						let id: Vec<usize> = (0..n).collect();
						let rev: Vec<usize> = (0..n).rev().collect();
						for k in KINDS {
							for a in [&id, &rev] {
								for w1 in [true, false] {
									if k != Kind::Retry && *a == rev {
										continue; // sorting collections ignore the listing order
									}
									opp.push((vec![Spec::Coll(k, rs(a))], vec![vec![acq(1, w1, Flavour::Guard, body)]]));
								}
							}
						}
						// two other threads, one on the first and one on the last listed leaf
						opp.push((vec![Spec::R(arr[0]), Spec::R(arr[n - 1])], vec![vec![acq(1, true, Flavour::Guard, body)], vec![acq(2, true, Flavour::ScopedLent, body)]]));
						// two other threads on a middle and on a later listed leaf: the back-off bookkeeping (which lock the
						// acquisition blocked on, how far it got) is exercised with first_index > i > 0
						for i in 1..n {
							for k in i + 1..n {
								opp.push((vec![Spec::R(arr[i]), Spec::R(arr[k])], vec![vec![acq(1, true, Flavour::Guard, body)], vec![acq(2, true, Flavour::Guard, body)]]));
							}
						}
						if n == 2 || thorough {
							opp.push((vec![Spec::Coll(Kind::Retry, rs(&rev)), Spec::R(arr[n - 1])], vec![vec![acq(1, true, Flavour::Guard, body)], vec![acq(2, false, Flavour::Guard, body)]]));
						}
					}
					for (ospecs, othreads) in opp {
						let any_writer = w0 || othreads.iter().flatten().any(|s| matches!(s, Step::Acq { write: true, .. }));
						if policy == Policy::WP && (!any_writer || (w0 && othreads.iter().flatten().all(|s| matches!(s, Step::Acq { write: true, .. })))) {
							continue;
						}
						let flavours: &[Flavour] = if n <= 2 || thorough { &[Flavour::Guard, Flavour::ScopedLent, Flavour::ScopedOwned] } else { &[Flavour::Guard] };
						for f in flavours {
							let mut specs = vec![t0spec.clone()];
							specs.extend(ospecs.clone());
							let mut threads = vec![t0(*f)];
							threads.extend(othreads.clone());
							out.push(Program { specs, threads, policy, name: format!("R{}", n), menu: vec![] });
						}
					}
				}
			}
		}
	}
	// owned units and nested members inside the retrying collection
	let nested: Vec<(Spec, Vec<Spec>)> = vec![
		(Spec::Coll(Kind::Retry, vec![Spec::R(0), Spec::OW(0)]), vec![Spec::Coll(Kind::Boxed, vec![Spec::OW(0), Spec::R(0)]), Spec::OW(0), Spec::Coll(Kind::Retry, vec![Spec::OW(0), Spec::R(0)]), Spec::R(0)]),
		(Spec::Coll(Kind::Retry, vec![Spec::OW(0), Spec::R(0)]), vec![Spec::Native(Native::NewOW(Kind::Ref, 0)), Spec::R(0)]),
		(Spec::Coll(Kind::Retry, vec![Spec::Coll(Kind::Boxed, vec![Spec::R(1), Spec::R(0)]), Spec::R(2)]), vec![Spec::Coll(Kind::Boxed, vec![Spec::R(2), Spec::R(0)]), Spec::R(1), Spec::Coll(Kind::Retry, vec![Spec::R(2), Spec::R(1)])]),
		(Spec::Coll(Kind::Retry, vec![Spec::R(2), Spec::Coll(Kind::Retry, vec![Spec::R(0), Spec::R(1)])]), vec![Spec::Coll(Kind::Ref, vec![Spec::R(1), Spec::R(2)]), Spec::R(0)]),
		(Spec::Coll(Kind::Retry, vec![Spec::PR(0), Spec::R(0)]), vec![Spec::PR(0), Spec::Coll(Kind::Boxed, vec![Spec::R(0), Spec::PR(0)])]),
		(Spec::Pois(Box::new(Spec::Coll(Kind::Retry, vec![Spec::R(1), Spec::R(0)]))), vec![Spec::Coll(Kind::Retry, vec![Spec::R(0), Spec::R(1)]), Spec::R(1)]),
		(Spec::Coll(Kind::Retry, vec![Spec::M(1), Spec::R(0), Spec::M(0)]), vec![Spec::Coll(Kind::Boxed, vec![Spec::M(0), Spec::M(1)]), Spec::R(0), Spec::M(0)]),
		(Spec::Native(Native::Slice(Kind::Retry, vec![2, 0, 1])), vec![Spec::Native(Native::Arr3(Kind::Retry, [1, 0, 2])), Spec::R(1)]),
		(Spec::Native(Native::TupMR(Kind::Retry, 0, 0)), vec![Spec::Coll(Kind::Retry, vec![Spec::R(0), Spec::M(0)]), Spec::M(0)]),
		// an owned unit whose members are listed against the address order, inside / behind a retrying collection,
		// against a thread that takes the unit directly
		(Spec::Native(Native::OwnedDescIn(Kind::Retry, 2)), vec![Spec::Native(Native::OwnedDescItself(2)), Spec::Native(Native::OwnedDescRef(Kind::Boxed, 2))]),
		(Spec::Native(Native::OwnedDescRef(Kind::Retry, 2)), vec![Spec::Native(Native::OwnedDescItself(2)), Spec::Native(Native::OwnedDescIn(Kind::Ref, 2))]),
	];
	for policy in POLICIES {
		for (t0s, others) in &nested {
			for o in others {
				for w0 in [true, false] {
					for w1 in [true, false] {
						if (!w0 && !t0s.sharable()) || (!w1 && !o.sharable()) {
							continue;
						}
						if policy == Policy::WP && ((w0 && w1) || (!w0 && !w1)) {
							continue;
						}
						out.push(Program { specs: vec![t0s.clone(), o.clone()], threads: vec![vec![acq(0, w0, Flavour::Guard, body)], vec![acq(1, w1, Flavour::Guard, body)]], policy, name: "Rn".into(), menu: vec![] });
					}
				}
			}
		}
	}
	// the opponent takes a member twice (release and re-take while the retrying thread is between two raw
	// operations), singly and then through a sorting collection over the same members; mutex and rwlock members
	let b0 = Body { touch: false, yield_mid: false, panic: false, clear: false, rekey: false };
	for policy in POLICIES {
		for members in [vec![Spec::R(0), Spec::M(0)], vec![Spec::M(0), Spec::R(0)], vec![Spec::M(1), Spec::M(0)], vec![Spec::R(1), Spec::R(0)], vec![Spec::R(0), Spec::R(1)]] {
			for w0 in [true, false] {
				let t0s = Spec::Coll(Kind::Retry, members.clone());
				if !w0 && !t0s.sharable() {
					continue;
				}
				for which in 0..2usize {
					let single = members[which].clone();
					let sorted = Spec::Coll(Kind::Boxed, members.clone());
					for second_sorted in [false, true] {
						if policy == Policy::WP && !w0 {
							continue;
						}
						let t1 = vec![acq(1, true, Flavour::Guard, b0), acq(if second_sorted { 2 } else { 1 }, true, Flavour::Guard, b0)];
						for f in [Flavour::Guard, Flavour::ScopedLent] {
							out.push(Program { specs: vec![t0s.clone(), single.clone(), sorted.clone()], threads: vec![vec![acq(0, w0, f, b0)], t1.clone()], policy, name: "Rr".into(), menu: vec![] });
						}
					}
				}
			}
		}
	}
	out
}

/// Family F: three threads - a collection over [a, b]; a thread that takes b and then a singly (forcing
/// two back-offs of a retrying acquisition); and a bystander inside a section of one of the leaves.
pub fn fam_f(body: Body, thorough: bool) -> Vec<Program> {
	let mut out = vec![];
	for policy in POLICIES {
		for k in KINDS {
			for rev in [false, true] {
				for w0 in [true, false] {
					for first in [0usize, 1] {
						for by_leaf in [0usize, 1] {
							for by_w in [true, false] {
								if policy == Policy::WP && !thorough && k != Kind::Retry {
									continue;
								}
								let specs = vec![Spec::Coll(k, rs(if rev { &[1, 0] } else { &[0, 1] })), Spec::R(0), Spec::R(1)];
								let t0 = vec![acq(0, w0, Flavour::Guard, body)];
								let t1 = vec![acq(1 + first, true, Flavour::Guard, Body::NONE), acq(1 + (1 - first), true, Flavour::ScopedLent, Body::NONE)];
								let t2 = vec![acq(1 + by_leaf, by_w, Flavour::Guard, body)];
								out.push(Program { specs, threads: vec![t0, t1, t2], policy, name: "F".into(), menu: vec![] });
							}
						}
					}
				}
			}
		}
	}
	out
}

/// Family N3 (thorough): every multiset of three shapes from a small nested catalogue, one acquisition per thread.
pub fn fam_triples(body: Body) -> Vec<Program> {
	use Kind::*;
	let r = |i| Spec::R(i);
	let c = |k, v: Vec<Spec>| Spec::Coll(k, v);
	let specs: Vec<Spec> = vec![
		c(Boxed, vec![r(2), r(0)]),
		c(Retry, vec![r(1), r(2)]),
		c(Ref, vec![c(Retry, vec![r(1), r(0)]), r(2)]),
		c(Retry, vec![r(0), c(Boxed, vec![r(2), r(1)])]),
		c(Boxed, vec![Spec::OW(0), r(0)]),
		c(Retry, vec![r(0), Spec::OW(0)]),
		Spec::Pois(Box::new(c(Retry, vec![r(2), r(0)]))),
		r(1),
	];
	let mut out = vec![];
	for policy in POLICIES {
		for i in 0..specs.len() {
			for j in i..specs.len() {
				for k in j..specs.len() {
					for modes in [[true, true, true], [true, false, true], [false, true, false]] {
						if policy == Policy::WP && modes.iter().all(|w| *w) {
							continue;
						}
						let ss = [&specs[i], &specs[j], &specs[k]];
						if ss.iter().zip(modes.iter()).any(|(s, w)| !*w && !s.sharable()) {
							continue;
						}
						out.push(Program { specs: ss.iter().map(|s| (*s).clone()).collect(), threads: (0..3).map(|t| vec![acq(t, modes[t], Flavour::Guard, body)]).collect(), policy, name: "N3".into(), menu: vec![] });
					}
				}
			}
		}
	}
	out
}

/// Family V: shared owned data `[Vec; 2]` listed against its address order; one thread goes through an
/// unchecked-at-runtime constructor over `&data` (new / new_ref), the other through a checked collection of
/// plain references to the same locks.
pub fn fam_vecs(body: Body) -> Vec<Program> {
	let mut out = vec![];
	for policy in POLICIES {
		for k0 in KINDS {
			for k1 in KINDS {
				for (w0, w1) in [(true, true), (true, false), (false, true)] {
					if policy == Policy::WP && w0 && w1 {
						continue;
					}
					for f in [Flavour::Guard, Flavour::ScopedLent] {
						out.push(Program { specs: vec![Spec::Native(Native::VecsNew(k0)), Spec::Native(Native::VecsRefs(k1))], threads: vec![vec![acq(0, w0, f, body)], vec![acq(1, w1, Flavour::Guard, body)]], policy, name: "V".into(), menu: vec![] });
					}
				}
			}
		}
		// the conversion-trait constructor over the same data
		for k1 in KINDS {
			for (w0, w1) in [(true, true), (true, false)] {
				if policy == Policy::WP && w0 && w1 {
					continue;
				}
				out.push(Program { specs: vec![Spec::Native(Native::VecsFromRef), Spec::Native(Native::VecsRefs(k1))], threads: vec![vec![acq(0, w0, Flavour::Guard, body)], vec![acq(1, w1, Flavour::Guard, body)]], policy, name: "V".into(), menu: vec![] });
			}
		}
		// a Boxed collection that owns the data (new / From / try_new) against checked collections of references into it
		for via in 0..3u8 {
			for k1 in KINDS {
				for (w0, w1) in [(true, true), (true, false), (false, true)] {
					if policy == Policy::WP && w0 && w1 {
						continue;
					}
					out.push(Program { specs: vec![Spec::Native(Native::VecsOwnedBoxed(via)), Spec::Native(Native::VecsRefs(k1))], threads: vec![vec![acq(0, w0, Flavour::Guard, body)], vec![acq(1, w1, Flavour::Guard, body)]], policy, name: "V".into(), menu: vec![] });
				}
			}
		}
		// a collection listing a zero-sized member (at the address of the lowest lock) first, against one without it
		for k0 in KINDS {
			for k1 in KINDS {
				for (w0, w1) in [(true, true), (true, false)] {
					if policy == Policy::WP && w0 && w1 {
						continue;
					}
					out.push(Program { specs: vec![Spec::Native(Native::ZstFront(k0, true)), Spec::Native(Native::ZstFront(k1, false))], threads: vec![vec![acq(0, w0, Flavour::Guard, body)], vec![acq(1, w1, Flavour::Guard, body)]], policy, name: "V".into(), menu: vec![] });
				}
			}
		}
		// two unchecked collections over the same data
		for k0 in KINDS {
			for k1 in KINDS {
				if policy == Policy::WP {
					continue;
				}
				out.push(Program { specs: vec![Spec::Native(Native::VecsNew(k0)), Spec::Native(Native::VecsNew(k1))], threads: vec![vec![acq(0, true, Flavour::Guard, body)], vec![acq(1, true, Flavour::Guard, body)]], policy, name: "V".into(), menu: vec![] });
			}
		}
	}
	out
}

/// Family M: both threads use the *same* collection whose members are listed against the address order
/// (`&mut` members), in every combination of modes: a collection that orders its members differently for
/// different modes (or flavours) deadlocks against itself.
pub fn fam_same(body: Body, thorough: bool) -> Vec<Program> {
	let mut out = vec![];
	for policy in POLICIES {
		for which in 0..4u8 {
			for n in if thorough { vec![2usize, 3] } else { vec![2] } {
				for (w0, w1) in [(true, false), (true, true), (false, false)] {
					if policy == Policy::WP && w0 == w1 {
						continue;
					}
					for f0 in [Flavour::Guard, Flavour::ScopedLent] {
						for f1 in [Flavour::Guard, Flavour::ScopedOwned] {
							if !thorough && f0 != Flavour::Guard && f1 != Flavour::Guard {
								continue;
							}
							out.push(Program { specs: vec![Spec::Native(Native::MutRefs(which, n))], threads: vec![vec![acq(0, w0, f0, body)], vec![acq(0, w1, f1, body)]], policy, name: "M".into(), menu: vec![] });
						}
					}
				}
			}
		}
	}
	// the owned unit locked directly by one thread and through a collection that refers to it by the other
	for policy in POLICIES {
		for k in KINDS {
			for via_tuple in [false, true] {
				for (w0, w1) in [(true, true), (true, false), (false, true)] {
					if policy == Policy::WP && w0 && w1 {
						continue;
					}
					let outer = if via_tuple { Spec::Native(Native::OwnedDescIn(k, 2)) } else { Spec::Native(Native::OwnedDescRef(k, 2)) };
					out.push(Program { specs: vec![Spec::Native(Native::OwnedDescItself(2)), outer], threads: vec![vec![acq(0, w0, Flavour::Guard, body)], vec![acq(1, w1, Flavour::Guard, body)]], policy, name: "M".into(), menu: vec![] });
				}
			}
		}
	}
	// the same, with the members inside an owned unit that a sorting / retrying collection refers to
	for policy in POLICIES {
		for k in KINDS {
			for (w0, w1) in [(true, false), (true, true)] {
				if policy == Policy::WP && w0 == w1 {
					continue;
				}
				out.push(Program { specs: vec![Spec::Native(Native::OwnedDescIn(k, 2))], threads: vec![vec![acq(0, w0, Flavour::Guard, body)], vec![acq(0, w1, Flavour::ScopedLent, body)]], policy, name: "M".into(), menu: vec![] });
			}
		}
	}
	out
}

/// Family W: collections built through the `unsafe` unchecked constructors (duplicate-free inputs listed
/// against the address order) against checked collections over the same locks.
pub fn fam_unchecked(body: Body) -> Vec<Program> {
	let mut out = vec![];
	for policy in POLICIES {
		for k0 in KINDS {
			for k1 in KINDS {
				for (w0, w1) in [(true, true), (true, false)] {
					if policy == Policy::WP && w0 && w1 {
						continue;
					}
					out.push(Program { specs: vec![Spec::Native(Native::Arr3Unchecked(k0, [2, 1, 0])), Spec::Coll(k1, rs(&[0, 2]))], threads: vec![vec![acq(0, w0, Flavour::Guard, body)], vec![acq(1, w1, Flavour::ScopedLent, body)]], policy, name: "W".into(), menu: vec![] });
				}
			}
		}
	}
	out
}

/// Family K: a raw lock operation panics in one thread (killing that lock) while a second thread holds the
/// lock and a third is waiting for it (directly or through a collection). The waiter either gets the lock or
/// refuses it by panicking, but never keeps anything it took; later acquisitions refuse the killed lock.
pub fn fam_kill(thorough: bool) -> Vec<Program> {
	let mut out = vec![];
	for policy in POLICIES {
		let mut leaves = vec![Spec::R(0), Spec::M(0)];
		if thorough {
			leaves.push(Spec::PR(0));
			leaves.push(Spec::PM(0));
		}
		for leaf in leaves {
			let rw = matches!(leaf, Spec::R(_) | Spec::PR(_));
			let mut colls = vec![leaf.clone(), Spec::Coll(Kind::Boxed, vec![leaf.clone(), Spec::R(1)]), Spec::Coll(Kind::Ref, vec![Spec::R(1), leaf.clone()])];
			if thorough {
				colls.push(Spec::Coll(Kind::Retry, vec![leaf.clone(), Spec::R(1)]));
				colls.push(Spec::Coll(Kind::Retry, vec![Spec::R(1), leaf.clone()]));
			}
			for c in colls {
				for (wh, ww) in [(true, true), (true, false), (false, true)] {
					if (!wh || !ww) && !rw {
						continue;
					}
					if policy == Policy::WP && wh && ww {
						continue;
					}
					for fw in [Flavour::Guard, Flavour::ScopedLent] {
						for htarget in [0usize, 1] {
							if htarget == 1 && !thorough && fw != Flavour::Guard {
								continue;
							}
							out.push(Program {
								specs: vec![leaf.clone(), c.clone()],
								threads: vec![vec![acq(htarget, wh, Flavour::Guard, Body::TOUCH)], vec![acq(1, ww, fw, Body::TOUCH), acq(1, ww, Flavour::Guard, Body::NONE)], vec![Step::FaultyTry { target: 0, write: true }]],
								policy,
								name: "K".into(),
								menu: vec![],
							});
						}
					}
				}
			}
		}
	}
	out
}

/// Family K2: a lock is killed through the safe `RawLock::poison` while other threads are in the middle of
/// acquiring, holding or releasing it (or a collection containing it) in every flavour. Whatever the acquirers
/// observe (a refusal, a panic, the lock), they end up holding either all of their target or nothing, and
/// every hold they did get is given back.
pub fn fam_kill2(thorough: bool) -> Vec<Program> {
	let mut out = vec![];
	let inside = Body { touch: true, yield_mid: true, panic: false, clear: false, rekey: false };
	let quick = Body { touch: true, yield_mid: false, panic: false, clear: false, rekey: false };
	let mut sets: Vec<Vec<Spec>> = vec![];
	for leaf in [Spec::R(0), Spec::M(0)] {
		sets.push(vec![leaf.clone(), leaf.clone()]);
		for k in KINDS {
			// the killed leaf first and last in the listing (for the retrying kind that is the acquisition order)
			sets.push(vec![leaf.clone(), Spec::Coll(k, vec![leaf.clone(), Spec::R(1)])]);
			sets.push(vec![leaf.clone(), Spec::Coll(k, vec![Spec::R(1), leaf.clone()])]);
		}
		if thorough {
			sets.push(vec![leaf.clone(), Spec::Pois(Box::new(Spec::Coll(Kind::Boxed, vec![leaf.clone(), Spec::R(1)])))]);
		}
	}
	sets.push(vec![Spec::PM(0), Spec::PM(0)]);
	sets.push(vec![Spec::PR(0), Spec::PR(0)]);
	let flavours: &[Flavour] = if thorough { &FLAVOURS } else { &[Flavour::Guard, Flavour::Try, Flavour::ScopedLent, Flavour::ScopedTryOwned] };
	for specs in &sets {
		for f in flavours {
			for w in [true, false] {
				if !w && !specs[1].sharable() {
					continue;
				}
				// acquirer (a section with a scheduling point inside) || killer
				out.push(Program { specs: specs.clone(), threads: vec![vec![acq(1, w, *f, inside)], vec![Step::Kill(0)]], policy: Policy::RP, name: "K2".into(), menu: vec![] });
				// ... and with a holder of the other member, so that a try fails half-way / a blocking call has to wait
				if specs[1].arena_leaves().contains(&(crate::world::R0 + 1)) {
					let mut sp = specs.clone();
					sp.push(Spec::R(1));
					out.push(Program { specs: sp, threads: vec![vec![acq(1, w, *f, quick)], vec![Step::Kill(0)], vec![acq(2, true, Flavour::Guard, inside)]], policy: Policy::RP, name: "K2".into(), menu: vec![] });
				}
			}
		}
	}
	out
}

/// Family R-kill (C09): a retrying acquisition whose first member is killed (safe `RawLock::poison`) while a later
/// member is held by another thread: the back-off must still give the killed member back before it waits.
pub fn fam_c09_kill() -> Vec<Program> {
	let mut out = vec![];
	let inside = Body { touch: true, yield_mid: true, panic: false, clear: false, rekey: false };
	for first in [Spec::M(0), Spec::R(0)] {
		for later in [Spec::R(1), Spec::M(1)] {
			for f in [Flavour::Guard, Flavour::ScopedLent] {
				for w in [true, false] {
					let t = Spec::Coll(Kind::Retry, vec![first.clone(), later.clone()]);
					if !w && !t.sharable() {
						continue;
					}
					out.push(Program { specs: vec![t, first.clone(), later.clone()], threads: vec![vec![acq(0, w, f, Body::TOUCH)], vec![Step::Kill(1)], vec![acq(2, true, Flavour::Guard, inside)]], policy: Policy::RP, name: "R-kill".into(), menu: vec![] });
				}
			}
		}
	}
	out
}

/// Family T: two threads with two acquisitions each over the same two leaves (listed in opposite orders):
/// whatever an acquisition leaves behind (a cached order, a counter, a flag) meets a second acquisition by the
/// same thread and by the other one. The first acquisition of T0 ranges over the try / unlock / scoped-try
/// flavours, whose exits differ most from a plain guard drop.
pub fn fam_twice(body: Body, thorough: bool) -> Vec<Program> {
	let mut out = vec![];
	let pairs: Vec<(Kind, Kind)> = if thorough { KINDS.iter().flat_map(|a| KINDS.iter().map(move |b| (*a, *b))).collect() } else { vec![(Kind::Boxed, Kind::Boxed), (Kind::Boxed, Kind::Retry), (Kind::Retry, Kind::Retry), (Kind::Ref, Kind::Retry)] };
	let firsts: &[Flavour] = if thorough { &[Flavour::Try, Flavour::GuardUnlock, Flavour::ScopedTryLent, Flavour::Guard] } else { &[Flavour::Try, Flavour::GuardUnlock] };
	for policy in POLICIES {
		for (k1, k2) in &pairs {
			for f1 in firsts {
				for f2 in [Flavour::Guard, Flavour::ScopedLent] {
					for (wa, wb) in [(true, true), (true, false), (false, true)] {
						let specs = vec![Spec::Coll(*k1, rs(&[0, 1])), Spec::Coll(*k2, rs(&[1, 0]))];
						let t0 = vec![acq(0, wa, *f1, body), acq(0, wb, f2, body)];
						let t1 = vec![acq(1, true, Flavour::Guard, body), acq(1, false, Flavour::Guard, body)];
						out.push(Program { specs, threads: vec![t0, t1], policy, name: "T".into(), menu: vec![] });
					}
				}
			}
		}
	}
	out
}

/// Family S: two readers and a writer on one lock-like target (a lock, a Poisonable, a wrapper around a
/// collection, an owned unit), every pair of guard / scoped / scoped-try flavours for the readers: a release
/// that takes more than the caller's own shared hold away lets the writer in while the other reader is inside.
pub fn fam_readers(thorough: bool) -> Vec<Program> {
	let mut out = vec![];
	let mut specs = vec![Spec::R(0), Spec::PR(0), Spec::PPR, Spec::OW(0), Spec::Pois(Box::new(Spec::Coll(Kind::Boxed, vec![Spec::R(0), Spec::R(1)]))), Spec::Pois(Box::new(Spec::Coll(Kind::Retry, vec![Spec::R(1), Spec::R(0)]))), Spec::Coll(Kind::Boxed, vec![Spec::PR(0), Spec::R(1)])];
	if thorough {
		specs.push(Spec::Pois(Box::new(Spec::Coll(Kind::Ref, vec![Spec::R(1), Spec::R(0)]))));
		specs.push(Spec::Coll(Kind::Retry, vec![Spec::R(1), Spec::PR(0)]));
		specs.push(Spec::Native(Native::PoisOwned(2)));
		specs.push(Spec::Native(Native::OwnedPoisR));
	}
	let rf: &[Flavour] = if thorough { &[Flavour::Guard, Flavour::GuardUnlock, Flavour::Try, Flavour::ScopedLent, Flavour::ScopedOwned, Flavour::ScopedTryLent, Flavour::ScopedTryOwned] } else { &[Flavour::Guard, Flavour::ScopedLent, Flavour::ScopedTryOwned] };
	let inside = Body { touch: true, yield_mid: true, panic: false, clear: false, rekey: false };
	let quick = Body { touch: true, yield_mid: false, panic: false, clear: false, rekey: false };
	for policy in POLICIES {
		for s in &specs {
			for f0 in rf {
				for f1 in rf {
					for fw in [Flavour::Guard, Flavour::Try] {
						if policy == Policy::WP && fw == Flavour::Try {
							continue;
						}
						out.push(Program { specs: vec![s.clone()], threads: vec![vec![acq(0, false, *f0, inside)], vec![acq(0, false, *f1, quick)], vec![acq(0, true, fw, quick)]], policy, name: "S".into(), menu: vec![] });
						// the second reader's section panics: its unwinding release must take only its own shared hold
						if !matches!(f1, Flavour::Try | Flavour::GuardUnlock) && (thorough || fw == Flavour::Guard) {
							out.push(Program { specs: vec![s.clone()], threads: vec![vec![acq(0, false, *f0, inside)], vec![acq(0, false, *f1, Body { touch: true, yield_mid: false, panic: true, clear: false, rekey: false })], vec![acq(0, true, fw, quick)]], policy, name: "S".into(), menu: vec![] });
						}
					}
				}
			}
		}
	}
	out
}

/// Family G: one thread formats (Debug) a lock or a collection while another thread is inside a section
/// of it, then tries to acquire it: formatting must not take anybody's hold away.
pub fn fam_debug(thorough: bool) -> Vec<Program> {
	let mut out = vec![];
	let mut sets: Vec<Vec<Spec>> = vec![vec![Spec::M(0), Spec::M(0)], vec![Spec::R(0), Spec::R(0)], vec![Spec::PM(0), Spec::PM(0)], vec![Spec::M(0), Spec::Native(Native::OwnedTupMR)]];
	for k in KINDS {
		sets.push(vec![Spec::M(0), Spec::Coll(k, vec![Spec::R(0), Spec::M(0)])]);
		sets.push(vec![Spec::R(0), Spec::Coll(k, vec![Spec::R(0), Spec::M(0)])]);
		sets.push(vec![Spec::Coll(k, vec![Spec::M(0), Spec::R(0)]), Spec::Coll(k, vec![Spec::M(0), Spec::R(0)])]);
		if thorough {
			sets.push(vec![Spec::PR(0), Spec::Coll(k, vec![Spec::PR(0), Spec::R(1)])]);
			sets.push(vec![Spec::R(0), Spec::Pois(Box::new(Spec::Coll(k, vec![Spec::R(1), Spec::R(0)])))]);
		}
	}
	let inside = Body { touch: true, yield_mid: true, panic: false, clear: false, rekey: false };
	for specs in sets {
		if specs.len() == 2 && matches!(specs[1], Spec::Native(Native::OwnedTupMR)) {
			// fresh leaves: the holder uses the collection itself
			out.push(Program { specs: vec![specs[1].clone()], threads: vec![vec![acq(0, true, Flavour::Guard, inside)], vec![Step::Debug(0), acq(0, true, Flavour::Try, Body::TOUCH)]], policy: Policy::RP, name: "G".into(), menu: vec![] });
			continue;
		}
		for w0 in [true, false] {
			if !w0 && !specs[0].sharable() {
				continue;
			}
			for f0 in [Flavour::Guard, Flavour::ScopedLent] {
				out.push(Program { specs: specs.clone(), threads: vec![vec![acq(0, w0, f0, inside)], vec![Step::Debug(1), acq(1, true, Flavour::Try, Body::TOUCH)]], policy: Policy::RP, name: "G".into(), menu: vec![] });
			}
		}
	}
	out
}

/// Family G2: while one thread formats (Debug) a lock, a collection or a Poisonable - free, or read-held by a third
/// thread - another thread kills one of its locks through the safe `RawLock::poison`. Formatting takes a transient
/// hold; whatever happens to the lock meanwhile, the formatter must leave without it.
pub fn fam_debug_kill(thorough: bool) -> Vec<Program> {
	let mut out = vec![];
	// (lock that is killed, what is formatted)
	let mut sets: Vec<Vec<Spec>> = vec![vec![Spec::R(0), Spec::R(0)], vec![Spec::M(0), Spec::M(0)], vec![Spec::PR(0), Spec::PR(0)], vec![Spec::R(0), Spec::OW(0)]];
	for k in KINDS {
		sets.push(vec![Spec::R(0), Spec::Coll(k, vec![Spec::R(1), Spec::R(0)])]);
		if thorough {
			sets.push(vec![Spec::M(0), Spec::Coll(k, vec![Spec::R(0), Spec::M(0)])]);
			sets.push(vec![Spec::R(0), Spec::Pois(Box::new(Spec::Coll(k, vec![Spec::R(1), Spec::R(0)])))]);
		}
	}
	sets.push(vec![Spec::OW(0), Spec::OW(0)]);
	let inside = Body { touch: true, yield_mid: true, panic: false, clear: false, rekey: false };
	for specs in sets {
		// formatter and killer alone
		out.push(Program { specs: specs.clone(), threads: vec![vec![Step::Debug(1), Step::Debug(1)], vec![Step::Kill(0)]], policy: Policy::RP, name: "G2".into(), menu: vec![] });
		// ... and with a reader inside (its guard is released after the kill)
		if specs[0].sharable() {
			for f in [Flavour::Guard, Flavour::ScopedLent] {
				out.push(Program { specs: specs.clone(), threads: vec![vec![Step::Debug(1)], vec![Step::Kill(0)], vec![acq(0, false, f, inside)]], policy: Policy::RP, name: "G2".into(), menu: vec![] });
			}
		}
	}
	out
}

/// Family Q: inside its section a thread asks for its key again (twice in a row): a key handed out while
/// the section's own key is alive lets the thread start an acquisition while it holds, and wait for itself.
pub fn fam_rekey() -> Vec<Program> {
	let mut out = vec![];
	let mut targets = vec![Spec::M(0), Spec::R(0), Spec::PM(0), Spec::OW(0)];
	for k in KINDS {
		targets.push(Spec::Coll(k, vec![Spec::R(1), Spec::M(0)]));
	}
	for t in targets {
		for f in FLAVOURS {
			for w in [true, false] {
				if !w && !t.sharable() {
					continue;
				}
				out.push(Program { specs: vec![t.clone(), Spec::R(2)], threads: vec![vec![acq(0, w, f, Body::REKEY)], vec![acq(1, true, Flavour::Guard, Body::NONE)]], policy: Policy::RP, name: "Q".into(), menu: vec![] });
			}
		}
	}
	out
}

/// Family U: a thread releases through the explicit `unlock` / `unlock_read` functions (and the other exits)
/// while a second thread is about to enter and a third tries to: a release that is issued twice, or once
/// too early, frees the second thread's hold while it is inside.
pub fn fam_unlock(thorough: bool) -> Vec<Program> {
	let mut out = vec![];
	let mut targets = vec![Spec::M(0), Spec::R(0), Spec::PM(0), Spec::PR(0), Spec::OW(0)];
	for k in KINDS {
		targets.push(Spec::Coll(k, vec![Spec::M(0), Spec::R(0)]));
		if thorough {
			targets.push(Spec::Pois(Box::new(Spec::Coll(k, vec![Spec::R(1), Spec::R(0)]))));
		}
	}
	targets.push(Spec::Native(Native::OwnedTupMR));
	let inside = Body { touch: true, yield_mid: true, panic: false, clear: false, rekey: false };
	let quick = Body { touch: true, yield_mid: false, panic: false, clear: false, rekey: false };
	let firsts: &[Flavour] = if thorough { &FLAVOURS } else { &[Flavour::GuardUnlock, Flavour::ScopedTryLent] };
	for t in targets {
		for f0 in firsts {
			for w0 in [true, false] {
				if !w0 && !t.sharable() {
					continue;
				}
				for w2 in [true, false] {
					if !w2 && (!t.sharable() || !thorough) {
						continue;
					}
					out.push(Program { specs: vec![t.clone()], threads: vec![vec![acq(0, w0, *f0, quick)], vec![acq(0, true, Flavour::Guard, inside)], vec![acq(0, w2, Flavour::Try, quick)]], policy: Policy::RP, name: "U".into(), menu: vec![] });
				}
			}
		}
	}
	out
}

/// Family Z: inputs in which a lock is reachable twice, the two occurrences NOT adjacent in any order the
/// constructor might look at (listing order, address order, nested). The checked constructors reject them
/// (then the program is vacuous); a constructor that lets one through yields a collection whose blocking
/// acquisition waits for a lock the thread already holds.
pub fn fam_duplicates() -> Vec<Program> {
	let mut out = vec![];
	let r = |i| Spec::R(i);
	for k in KINDS {
		let mut inputs = vec![
			Spec::Coll(k, vec![r(0), r(1), r(0)]),
			Spec::Coll(k, vec![r(1), r(0), r(2), r(1)]),
			Spec::Coll(k, vec![r(2), r(0), r(1), r(2)]),
			Spec::Coll(k, vec![Spec::M(0), r(0), Spec::M(0)]),
			Spec::Coll(k, vec![Spec::OW(0), r(0), Spec::OW(0)]),
			Spec::Coll(k, vec![Spec::PR(0), r(0), Spec::PR(0)]),
		];
		for k2 in KINDS {
			inputs.push(Spec::Coll(k, vec![r(0), Spec::Coll(k2, vec![r(1), r(0)])]));
			inputs.push(Spec::Coll(k, vec![Spec::Coll(k2, vec![r(0), r(1)]), r(2), r(0)]));
			inputs.push(Spec::Coll(k, vec![Spec::Coll(k2, vec![r(0), r(2)]), Spec::Coll(k2, vec![r(1), r(0)])]));
			inputs.push(Spec::Coll(k, vec![r(1), Spec::Pois(Box::new(Spec::Coll(k2, vec![r(0), r(1)])))]));
		}
		for s in inputs {
			for w in [true, false] {
				if !w && !s.sharable() {
					continue;
				}
				for f in [Flavour::Guard, Flavour::ScopedLent] {
					out.push(Program { specs: vec![s.clone(), Spec::R(3)], threads: vec![vec![acq(0, w, f, Body::TOUCH)], vec![acq(1, true, Flavour::Guard, Body::NONE)]], policy: Policy::WP, name: "Z".into(), menu: vec![] });
				}
			}
		}
	}
	out
}
