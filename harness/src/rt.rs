//! Runtime: the verification raw locks (`VMutex`, `VRw`), the per-execution
//! state (`Exec`), the owner-table audit, the controlled scheduler and the
//! fault injector.  See DESIGN.md §3.
//!
//! Every logical thread of an execution is a real OS thread (fresh
//! thread-locals => fresh `ThreadKey`, own `thread::panicking()`), but it only
//! runs while it holds the execution's baton.  The controller (the explorer)
//! decides at every *point* which thread continues.

use std::any::Any;
use std::cell::RefCell;
use std::collections::hash_map::DefaultHasher;
use std::hash::{Hash, Hasher};
use std::panic::{catch_unwind, resume_unwind, AssertUnwindSafe};
use std::sync::atomic::{AtomicU32, Ordering};
use std::sync::{Arc, Condvar, Mutex as StdMutex, MutexGuard as StdGuard};
use std::time::Duration;

pub const FOREIGN: usize = 14; // pseudo thread id of "another thread" in sequential mode
pub const FOREIGN2: usize = 15;
pub const MAXT: usize = 16;

#[derive(Clone, Copy, PartialEq, Eq, Hash, Debug)]
pub enum Mode {
	Excl,
	Shared,
}
#[derive(Clone, Copy, PartialEq, Eq, Hash, Debug)]
pub enum Act {
	Lock,
	Try,
	Unlock,
}
#[derive(Clone, Copy, PartialEq, Eq, Hash, Debug)]
pub struct RawOp {
	pub lock: u32,
	pub act: Act,
	pub mode: Mode,
}
impl RawOp {
	pub fn short(&self) -> String {
		let a = match (self.act, self.mode) {
			(Act::Lock, Mode::Excl) => "lock",
			(Act::Try, Mode::Excl) => "try",
			(Act::Unlock, Mode::Excl) => "unlock",
			(Act::Lock, Mode::Shared) => "lock_sh",
			(Act::Try, Mode::Shared) => "try_sh",
			(Act::Unlock, Mode::Shared) => "unlock_sh",
		};
		format!("{}(L{})", a, self.lock)
	}
}

#[derive(Clone, Copy, PartialEq, Eq, Hash, Debug, serde::Serialize, serde::Deserialize)]
pub enum Policy {
	/// reader-preferring: a shared acquisition is grantable whenever no exclusive holder exists
	RP,
	/// writer-preferring: additionally not grantable while some thread is blocked in an exclusive acquisition of a held lock
	WP,
}

#[derive(Clone, Copy, PartialEq, Eq, Hash, Debug, serde::Serialize, serde::Deserialize)]
pub enum Gran {
	/// every raw operation is a scheduling point
	RawOp,
	/// threads run whole API calls atomically; they only park at step boundaries or when blocked
	ApiCall,
}

/// What kind of API call the harness is currently making into happylock.
#[derive(Clone, Copy, PartialEq, Eq, Hash, Debug)]
pub enum CallKind {
	None,
	/// blocking acquisition (lock/read/write/scoped_*)
	Acquire,
	/// try_* acquisition
	TryAcquire,
	/// release through guard drop / unlock (outside an acquiring call)
	Release,
	/// non-acquiring operation (Debug, constructors, accessors, ...)
	NonAcquiring,
	/// user code running inside a scoped closure / with a live guard (no raw ops expected except via nested debug)
	Body,
}

#[derive(Clone, Debug)]
pub struct CallCtx {
	pub serial: u32,
	pub kind: CallKind,
	/// the call goes through a RetryingLockCollection at top level (C09 oracle applies)
	pub retrying: bool,
	/// number of raw ops seen in this call
	pub raw_ops: u32,
	/// free text describing the call for reports
	pub what: String,
	/// blocking acquisitions performed in this call, in order (C08)
	pub blocking_seq: Vec<u32>,
	/// all acquisitions that succeeded in this call
	pub acquired: Vec<(u32, Mode)>,
}
impl CallCtx {
	pub fn none() -> Self {
		CallCtx { serial: 0, kind: CallKind::None, retrying: false, raw_ops: 0, what: String::new(), blocking_seq: vec![], acquired: vec![] }
	}
}

#[derive(Clone, Debug, PartialEq, Eq, Hash)]
pub struct Violation {
	pub prop: &'static str,
	/// stable machine-readable key (used for known-finding matching)
	pub key: String,
	pub detail: String,
}

#[derive(Clone, Debug)]
pub struct Ev {
	pub tid: usize,
	pub call: u32,
	pub what: EvKind,
}
#[derive(Clone, Debug)]
pub enum EvKind {
	Raw { op: RawOp, ok: bool, note: &'static str },
	Fault { op: RawOp },
	Env { lock: u32, note: &'static str },
	Note(String),
}

#[derive(Clone, Debug, PartialEq, Eq)]
pub enum Pending {
	Start,
	Raw(RawOp),
	Yield(u32),
	/// menu point: thread asks the controller to pick one of `n` actions
	Menu(Vec<u16>),
}

#[derive(Clone, Debug, PartialEq, Eq)]
pub enum Status {
	NotStarted,
	Running,
	Parked,
	Finished,
}

#[derive(Clone, Debug, Default)]
pub struct LockSt {
	pub excl: Option<usize>,
	pub shared: Vec<usize>,
	/// sequential mode only: a foreign writer is queued (for WP semantics)
	pub queued_writer: bool,
	/// an unlock this lock's holder state did not entitle the caller to has been applied to it: by the lock_api
	/// contract that is undefined behaviour of the raw lock, which from then on may never grant a waiter
	pub corrupted: bool,
}
impl LockSt {
	pub fn is_free(&self) -> bool {
		self.excl.is_none() && self.shared.is_empty()
	}
	pub fn held_by(&self, tid: usize) -> Option<Mode> {
		if self.excl == Some(tid) {
			Some(Mode::Excl)
		} else if self.shared.contains(&tid) {
			Some(Mode::Shared)
		} else {
			None
		}
	}
}

pub struct ThreadSt {
	pub status: Status,
	pub pending: Option<Pending>,
	pub result: bool,
	pub chosen: u16,
	pub obs: u64,
	pub local: u64,
	pub use_local: bool,
	pub pc: u32,
	pub ctx: CallCtx,
	pub call_serial: u32,
	pub outcome: Option<String>,
	pub retry_rounds: u32,
	pub points: u32,
	/// blocking raw acquisitions of the most recent acquiring call (C08)
	pub last_acq_seq: Vec<u32>,
	/// all raw acquisitions (blocking or try) that succeeded in the most recent acquiring call
	pub last_acquired: Vec<(u32, Mode)>,
	/// poison flags whose exclusive hold is being unwound by this thread: (flag, leaves under the flag)
	pub inflight: Vec<(u32, Vec<u32>)>,
	/// one-shot: the next raw try operation issued by this thread panics instead (concurrent fault families)
	pub fault_next_try: bool,
	/// the hidden-flag digest this thread last ran under
	pub hidden_seen: u64,
	/// menu threads, while inside an action on target `watch`: digest of that target's hidden flags when the
	/// thread last ran (what the library may have read on its behalf)
	pub watch: Option<usize>,
	pub watch_seen: u64,
}

#[derive(Clone, Debug, serde::Serialize, serde::Deserialize)]
pub enum FaultSpec {
	/// panic instead of performing global raw op number `index` (0-based, counted over the execution once armed)
	OneShot { index: usize },
	/// every op matching (lock, act-filter) panics
	Persistent { lock: u32, on_lock: bool, on_try: bool, on_unlock: bool },
}

pub struct Inner {
	pub gran: Gran,
	pub policy: Policy,
	pub nthreads: usize,
	pub turn: Option<usize>,
	pub abort: bool,
	pub threads: Vec<ThreadSt>,
	pub locks: Vec<LockSt>,
	pub lock_is_rw: Vec<bool>,
	/// owned-unit id of each lock (0 = none); holds inside one owned unit are one "unit" for C09
	pub lock_unit: Vec<u32>,
	pub shadow: Vec<u64>,
	pub trace: Vec<Ev>,
	pub keep_trace: bool,
	pub violations: Vec<Violation>,
	pub fault: Option<FaultSpec>,
	pub fault_armed: bool,
	pub raw_counter: usize,
	pub faults_fired: Vec<(usize, RawOp)>,
	pub last: Option<usize>,
	pub preemptions: u32,
	pub env_steps: u32,
	pub blocked_seen: bool,
	pub machinery_error: Option<String>,
	pub decider: Option<Decider>,
	/// digest of the library's hidden shared flags (poison flags); what a thread read from them while it
	/// ran is part of its local state, so the digest enters its observation hash whenever it changed
	pub hidden_probe: Option<HiddenProbe>,
	/// leaves held by a guard that was leaked with mem::forget (never released)
	/// sequential mode: at environment step n (the foreign holders release because the subject blocks) the
	/// foreign thread additionally takes this lock if it is free (hand-over patterns)
	/// raw-op granularity: add a scheduling point right after the effect of every release (exposes "released,
	/// then published" orderings such as unlock-before-poison)
	pub post_release_points: bool,
	pub env_script: Vec<Option<(u32, Mode)>>,
	pub leaked: Vec<u32>,
	/// poison reference model: per flag id 0 = must be false, 1 = must be true, 2 = unconstrained, 3 = panic in flight (either)
	pub pmodel: std::collections::BTreeMap<u32, u8>,
	/// which call's panic made the flag must-be-true (for keying a missed poisoning by its culprit)
	pub pculprit: std::collections::BTreeMap<u32, String>,
}

pub struct Exec {
	pub inner: StdMutex<Inner>,
	pub cv_thr: Vec<Condvar>,
}

thread_local! {
	static CTX: RefCell<Option<(Arc<Exec>, usize)>> = const { RefCell::new(None) };
	static REG: RefCell<Option<u32>> = const { RefCell::new(None) };
}

/// Panic payload used to tear an execution down.
pub struct AbortToken;
/// Panic payload for an injected raw-operation fault.
pub struct FaultToken(pub RawOp);
/// Panic payload for an injected user panic.
pub struct UserPanic(pub u32);
/// Panic payload: a blocking op that can never be granted (self-wait) in sequential mode.
pub struct SelfWaitToken;

pub fn set_ctx(exec: Arc<Exec>, tid: usize) {
	CTX.with(|c| *c.borrow_mut() = Some((exec, tid)));
}
pub fn clear_ctx() {
	CTX.with(|c| *c.borrow_mut() = None);
}
pub fn ctx() -> Option<(Arc<Exec>, usize)> {
	CTX.with(|c| c.borrow().clone())
}
pub fn my_tid() -> usize {
	ctx().map(|c| c.1).unwrap_or(0)
}

/// Registration mode: the next raw op on an unnamed lock names it.
pub fn register_begin(id: u32) {
	REG.with(|r| *r.borrow_mut() = Some(id));
}
pub fn register_end() {
	REG.with(|r| *r.borrow_mut() = None);
}

fn mix(h: u64, v: u64) -> u64 {
	let mut s = DefaultHasher::new();
	h.hash(&mut s);
	v.hash(&mut s);
	s.finish()
}

impl Inner {
	pub fn held(&self, tid: usize) -> Vec<(u32, Mode)> {
		let mut v = vec![];
		for (i, l) in self.locks.iter().enumerate() {
			if l.excl == Some(tid) {
				v.push((i as u32, Mode::Excl));
			}
			for s in &l.shared {
				if *s == tid {
					v.push((i as u32, Mode::Shared));
				}
			}
		}
		v
	}

	pub fn table_fingerprint(&self) -> u64 {
		let mut h = 0u64;
		for (i, l) in self.locks.iter().enumerate() {
			if let Some(e) = l.excl {
				h = mix(h, (i as u64) << 8 | e as u64);
			}
			let mut s = l.shared.clone();
			s.sort();
			for t in s {
				h = mix(h, 1 << 40 | (i as u64) << 8 | t as u64);
			}
			if l.queued_writer {
				h = mix(h, 2 << 40 | i as u64);
			}
			if l.corrupted {
				h = mix(h, 3 << 40 | i as u64);
			}
		}
		h
	}

	pub fn table_string(&self) -> String {
		let mut s = String::new();
		for (i, l) in self.locks.iter().enumerate() {
			if let Some(e) = l.excl {
				s += &format!("L{}:X{} ", i, e);
			}
			if !l.shared.is_empty() {
				s += &format!("L{}:S{:?} ", i, l.shared);
			}
		}
		s
	}

	fn viol(&mut self, prop: &'static str, key: String, detail: String) {
		let v = Violation { prop, key, detail };
		if !self.violations.contains(&v) {
			self.violations.push(v);
		}
	}

	/// Is a blocking/try acquisition by `tid` grantable right now?
	pub fn grantable(&self, tid: usize, op: RawOp) -> bool {
		let l = &self.locks[op.lock as usize];
		match op.mode {
			Mode::Excl => l.is_free(),
			Mode::Shared => {
				if l.excl.is_some() {
					return false;
				}
				if self.policy == Policy::WP && !l.is_free() {
					if l.queued_writer {
						return false;
					}
					// some other thread blocked in an exclusive acquisition of this (held) lock
					for (t, th) in self.threads.iter().enumerate() {
						if t != tid && th.status == Status::Parked {
							if let Some(Pending::Raw(p)) = &th.pending {
								if p.lock == op.lock && p.act == Act::Lock && p.mode == Mode::Excl {
									return false;
								}
							}
						}
					}
				}
				true
			}
		}
	}

	fn hidden_digest_with(&self, p: &HiddenProbe) -> u64 {
		self.hidden_digest_of(p, None)
	}
	fn hidden_digest_of(&self, p: &HiddenProbe, t: Option<usize>) -> u64 {
		let mut h = p(t);
		for (_, op) in &self.faults_fired {
			h = mix(h, 0xdead_0000 | (op.lock as u64) << 4 | op.act as u64);
		}
		h
	}

	pub fn thread_enabled(&self, tid: usize) -> bool {
		let th = &self.threads[tid];
		if th.status != Status::Parked {
			return false;
		}
		match &th.pending {
			Some(Pending::Raw(op)) if op.act == Act::Lock => self.grantable(tid, *op),
			Some(_) => true,
			None => false,
		}
	}

	/// Apply the effect of a raw op (audit included). Returns the op's boolean result.
	fn apply(&mut self, tid: usize, op: RawOp) -> bool {
		let call = self.threads[tid].ctx.serial;
		let is_rw = self.lock_is_rw[op.lock as usize];
		let what = self.threads[tid].ctx.what.clone();
		match op.act {
			Act::Lock | Act::Try => {
				let ok = self.grantable(tid, op);
				if op.act == Act::Lock && !ok {
					self.machinery_error = Some(format!("granted non-grantable blocking op {:?} to T{}", op, tid));
				}
				if ok {
					let l = &mut self.locks[op.lock as usize];
					match op.mode {
						Mode::Excl => l.excl = Some(tid),
						Mode::Shared => l.shared.push(tid),
					}
					self.threads[tid].ctx.acquired.push((op.lock, op.mode));
					if op.act == Act::Lock {
						self.threads[tid].ctx.blocking_seq.push(op.lock);
					}
				}
				self.log(tid, call, EvKind::Raw { op, ok, note: "" });
				ok
			}
			Act::Unlock => {
				let l = &self.locks[op.lock as usize];
				let held = l.held_by(tid);
				let note;
				match (held, op.mode) {
					(Some(Mode::Excl), Mode::Excl) => {
						self.locks[op.lock as usize].excl = None;
						note = "";
						// the panicking holder starts giving this leaf back: from now on every observer must see the poison
						let fl: Vec<u32> = self.threads[tid].inflight.iter().filter(|(_, ls)| ls.contains(&op.lock)).map(|(f, _)| *f).collect();
						for f in fl {
							if self.pmodel.get(&f).copied() == Some(PM_INFLIGHT) {
								self.pmodel.insert(f, PM_TRUE);
							}
						}
					}
					(Some(Mode::Shared), Mode::Shared) => {
						let l = &mut self.locks[op.lock as usize];
						let p = l.shared.iter().position(|t| *t == tid).unwrap();
						l.shared.remove(p);
						note = "";
					}
					(Some(_), _) => {
						note = "wrong-mode";
						let k = format!("wrong-mode-release|{}", what_key(&what));
						self.viol("C05", k, format!("T{} releases L{} ({}) in mode {:?} but holds it in the other mode, during `{}`", tid, op.lock, if is_rw { "rwlock" } else { "mutex" }, op.mode, what));
					}
					(None, _) => {
						let other = !l.is_free();
						note = if other { "foreign" } else { "not-held" };
						let k = format!("{}-release|{}", note, what_key(&what));
						self.viol("C05", k, format!("T{} releases L{} in mode {:?} which it does not hold ({}), during `{}`; table: {}", tid, op.lock, op.mode, if other { "held by another thread" } else { "free: double release" }, what, self.table_string()));
					}
				}
				if !note.is_empty() {
					// A real raw lock does not know its owners: an unlock it was not entitled to still frees
					// the lock (parking_lot clears the state word). Model that, so that the damage the
					// illegal release does to mutual exclusion (C02) is visible downstream.
					let l = &mut self.locks[op.lock as usize];
					l.excl = None;
					l.shared.clear();
					l.corrupted = true;
				}
				self.log(tid, call, EvKind::Raw { op, ok: note.is_empty(), note });
				true
			}
		}
	}

	fn log(&mut self, tid: usize, call: u32, what: EvKind) {
		if self.keep_trace {
			self.trace.push(Ev { tid, call, what });
		}
	}

	/// Call-context checks performed when a raw op is *issued* (before scheduling).
	fn on_issue(&mut self, tid: usize, op: RawOp) {
		let ctx = self.threads[tid].ctx.clone();
		let first = ctx.raw_ops == 0;
		self.threads[tid].ctx.raw_ops += 1;
		match ctx.kind {
			CallKind::Acquire | CallKind::TryAcquire => {
				if first && op.act != Act::Unlock {
					let held = self.held(tid);
					if !held.is_empty() {
						self.viol("C03", format!("acquire-while-holding|{}", what_key(&ctx.what)), format!("T{} starts `{}` with raw {} while still holding {:?}", tid, ctx.what, op.short(), held));
					}
				}
				if ctx.kind == CallKind::TryAcquire && op.act == Act::Lock {
					self.viol("C04", format!("try-blocks|{}", what_key(&ctx.what)), format!("T{} issues blocking raw {} inside try call `{}`", tid, op.short(), ctx.what));
				}
			}
			CallKind::NonAcquiring => {
				if op.act == Act::Lock {
					self.viol("C17", format!("nonacq-blocks|{}", what_key(&ctx.what)), format!("T{} issues blocking raw {} inside non-acquiring operation `{}`", tid, op.short(), ctx.what));
				}
			}
			_ => {}
		}
		// self-wait: a blocking acquisition of a lock the caller itself holds can never be granted
		if op.act == Act::Lock {
			let l = &self.locks[op.lock as usize];
			let conflict = match op.mode {
				Mode::Excl => l.held_by(tid).is_some(),
				Mode::Shared => l.excl == Some(tid),
			};
			if conflict {
				self.viol("C01", format!("self-wait|{}", what_key(&ctx.what)), format!("T{} waits for L{} which it holds itself, during `{}`", tid, op.lock, ctx.what));
			}
			// The harness lock grants by its owner table, so it forgives an unlock the caller was not entitled to
			// (wrong mode, not held). A production raw lock does not: lock_api makes that undefined behaviour and
			// parking_lot's state word is left claiming holders that do not exist, so a later blocking acquisition
			// may wait for ever although nobody holds the lock.
			if self.locks[op.lock as usize].corrupted {
				self.viol("C01", format!("wait-on-corrupted-lock|{}", what_key(&ctx.what)), format!("T{} blocks on L{} during `{}` after an unlock that lock_api does not allow was applied to L{} (wrong mode or not held): a real raw lock may never grant this", tid, op.lock, ctx.what, op.lock));
			}
		}
	}
}

/// Strip run-specific detail (leaf numbers) from a call description so it can key a known finding.
pub fn what_key(what: &str) -> String {
	what.split('#').next().unwrap_or("").trim().to_string()
}

/// What the scheduler decides at a quiescent point.
pub enum Decision {
	Run(usize, u16),
	Stop,
}
/// The scheduling policy of an execution; called (under the execution lock) by whichever
/// thread made the execution quiescent.
pub type Decider = Box<dyn FnMut(&mut Inner) -> Decision + Send>;
/// `None`: digest of every hidden flag of the world; `Some(t)`: of the flags target `t` can reach
pub type HiddenProbe = Box<dyn Fn(Option<usize>) -> u64 + Send>;

impl Exec {
	pub fn new(gran: Gran, policy: Policy, nthreads: usize, is_rw: Vec<bool>) -> Arc<Exec> {
		let nlocks = is_rw.len();
		let mut threads = vec![];
		for _ in 0..MAXT {
			threads.push(ThreadSt { status: Status::Finished, pending: None, result: false, chosen: 0, obs: 0, local: 0, use_local: false, pc: 0, ctx: CallCtx::none(), call_serial: 0, outcome: None, retry_rounds: 0, points: 0, last_acq_seq: vec![], last_acquired: vec![], inflight: vec![], fault_next_try: false, hidden_seen: 0, watch: None, watch_seen: 0 });
		}
		for t in threads.iter_mut().take(nthreads) {
			t.status = Status::NotStarted;
		}
		Arc::new(Exec {
			inner: StdMutex::new(Inner {
				gran,
				policy,
				nthreads,
				turn: None,
				abort: false,
				threads,
				locks: vec![LockSt::default(); nlocks],
				lock_is_rw: is_rw,
				lock_unit: vec![0; nlocks],
				shadow: vec![0; nlocks],
				trace: vec![],
				keep_trace: false,
				violations: vec![],
				fault: None,
				fault_armed: false,
				raw_counter: 0,
				faults_fired: vec![],
				last: None,
				preemptions: 0,
				env_steps: 0,
				blocked_seen: false,
				machinery_error: None,
				decider: None,
				hidden_probe: None,
				post_release_points: false,
				env_script: vec![],
				leaked: vec![],
				pmodel: Default::default(),
				pculprit: Default::default(),
			}),
			cv_thr: (0..MAXT).map(|_| Condvar::new()).collect(),
		})
	}

	pub fn set_locks(&self, is_rw: Vec<bool>, unit: Vec<u32>) {
		let mut g = self.lock();
		let n = is_rw.len();
		g.locks = vec![LockSt::default(); n];
		g.shadow = vec![0; n];
		g.lock_is_rw = is_rw;
		g.lock_unit = unit;
	}

	pub fn lock(&self) -> StdGuard<'_, Inner> {
		match self.inner.lock() {
			Ok(g) => g,
			Err(p) => p.into_inner(),
		}
	}

	/// Install the scheduling policy. The closure may borrow data of the caller: the caller
	/// guarantees (by waiting for all logical threads) that it is dropped before that data.
	pub fn set_decider<'a>(&self, d: Box<dyn FnMut(&mut Inner) -> Decision + Send + 'a>) {
		let d: Decider = unsafe { std::mem::transmute(d) };
		self.lock().decider = Some(d);
	}
	pub fn clear_decider(&self) {
		let mut g = self.lock();
		g.decider = None;
		g.hidden_probe = None;
	}
	/// Install the hidden-flag probe; every thread starts out having seen the current digest.
	pub fn set_hidden_probe<'a>(&self, p: Box<dyn Fn(Option<usize>) -> u64 + Send + 'a>) {
		let p: HiddenProbe = unsafe { std::mem::transmute(p) };
		let mut g = self.lock();
		let h = g.hidden_digest_with(&p);
		for t in g.threads.iter_mut() {
			t.hidden_seen = h;
		}
		g.hidden_probe = Some(p);
	}

	fn quiescent(g: &Inner) -> bool {
		g.turn.is_none() && !g.threads[..g.nthreads].iter().any(|t| t.status == Status::NotStarted || t.status == Status::Running)
	}

	/// Grant thread `tid` its pending point (effects applied here).
	fn grant(g: &mut Inner, tid: usize, choice: u16) {
		if !g.thread_enabled(tid) {
			g.machinery_error = Some(format!("scheduler chose disabled thread T{}", tid));
			g.abort = true;
			return;
		}
		if let Some(l) = g.last {
			if l != tid && g.thread_enabled(l) {
				g.preemptions += 1;
			}
		}
		g.last = Some(tid);
		if let Some(pr) = g.hidden_probe.take() {
			let h = g.hidden_digest_with(&pr);
			g.hidden_probe = Some(pr);
			if h != g.threads[tid].hidden_seen {
				g.threads[tid].hidden_seen = h;
				let o = mix(g.threads[tid].obs, 0x41dd_0000_0000_0000 ^ h);
				g.threads[tid].obs = o;
			}
			if let Some(t) = g.threads[tid].watch {
				if let Some(pr) = g.hidden_probe.take() {
					g.threads[tid].watch_seen = g.hidden_digest_of(&pr, Some(t));
					g.hidden_probe = Some(pr);
				}
			}
		}
		let p = g.threads[tid].pending.take().unwrap();
		let mut res = true;
		match &p {
			Pending::Raw(op) => {
				res = g.apply(tid, *op);
				let o = mix(g.threads[tid].obs, (op.lock as u64) << 16 | (op.act as u64) << 8 | (op.mode as u64) << 4 | res as u64);
				g.threads[tid].obs = o;
			}
			Pending::Menu(_) => {
				let o = mix(g.threads[tid].obs, 0xabc000 | choice as u64);
				g.threads[tid].obs = o;
			}
			_ => {}
		}
		g.threads[tid].result = res;
		g.threads[tid].chosen = choice;
		g.threads[tid].status = Status::Running;
		g.threads[tid].points += 1;
		g.turn = Some(tid);
	}

	/// Run the decider if the execution is quiescent; wake whoever is chosen (or everyone on stop).
	fn schedule(&self, g: &mut Inner) {
		if g.abort || !Self::quiescent(g) {
			return;
		}
		let Some(mut d) = g.decider.take() else {
			g.abort = true;
			self.wake_all();
			return;
		};
		let dec = d(g);
		g.decider = Some(d);
		match dec {
			Decision::Run(t, c) => {
				Self::grant(g, t, c);
				if g.abort {
					self.wake_all();
				} else {
					self.cv_thr[t].notify_one();
				}
			}
			Decision::Stop => {
				g.abort = true;
				self.wake_all();
			}
		}
	}

	fn wake_all(&self) {
		for c in &self.cv_thr {
			c.notify_all();
		}
	}

	pub fn abort(&self) {
		let mut g = self.lock();
		g.abort = true;
		self.wake_all();
	}

	// ---------------- thread side ----------------

	/// Called by a logical thread: park with `pending`, wait to be granted.
	fn park(&self, tid: usize, pending: Pending) -> (bool, u16) {
		let mut g = self.lock();
		if g.abort {
			drop(g);
			return abort_point();
		}
		g.threads[tid].pending = Some(pending);
		g.threads[tid].status = Status::Parked;
		if g.turn == Some(tid) {
			g.turn = None;
		}
		self.schedule(&mut g);
		loop {
			if g.abort {
				drop(g);
				return abort_point();
			}
			if g.turn == Some(tid) && g.threads[tid].status == Status::Running {
				return (g.threads[tid].result, g.threads[tid].chosen);
			}
			g = match self.cv_thr[tid].wait(g) {
				Ok(x) => x,
				Err(p) => p.into_inner(),
			};
		}
	}

	pub fn finish_thread(&self, tid: usize, outcome: String) {
		let mut g = self.lock();
		g.threads[tid].status = Status::Finished;
		g.threads[tid].pending = None;
		g.threads[tid].outcome = Some(outcome);
		if g.turn == Some(tid) {
			g.turn = None;
		}
		self.schedule(&mut g);
	}
}

// ---------------------------------------------------------------------------------
// Thread pool: logical threads run on pooled OS threads (fresh thread-locals are
// re-established by checking that the thread's key is obtainable between jobs)
// ---------------------------------------------------------------------------------

type Job = Box<dyn FnOnce() + Send + 'static>;

struct PoolThread {
	tx: std::sync::mpsc::Sender<Job>,
	done: std::sync::mpsc::Receiver<bool>,
}

pub struct Pool {
	threads: Vec<Option<PoolThread>>,
	pub respawned: u64,
}

fn spawn_pool_thread() -> PoolThread {
	let (tx, rx) = std::sync::mpsc::channel::<Job>();
	let (dtx, drx) = std::sync::mpsc::channel::<bool>();
	std::thread::Builder::new()
		.stack_size(512 * 1024)
		.spawn(move || {
			while let Ok(job) = rx.recv() {
				let _ = catch_unwind(AssertUnwindSafe(job));
				// key hygiene: the thread-local key must be obtainable, else this OS thread is retired
				let clean = match happylock::ThreadKey::get() {
					Some(k) => {
						drop(k);
						true
					}
					None => false,
				};
				if dtx.send(clean).is_err() || !clean {
					break;
				}
			}
		})
		.expect("spawn pool thread");
	PoolThread { tx, done: drx }
}

impl Pool {
	pub fn new() -> Self {
		Pool { threads: vec![], respawned: 0 }
	}
	/// Run the jobs on distinct OS threads and wait for all of them. Returns false on watchdog timeout.
	pub fn run<'a>(&mut self, jobs: Vec<Box<dyn FnOnce() + Send + 'a>>, timeout: Duration) -> bool {
		let n = jobs.len();
		while self.threads.len() < n {
			self.threads.push(None);
		}
		for (i, j) in jobs.into_iter().enumerate() {
			if self.threads[i].is_none() {
				self.threads[i] = Some(spawn_pool_thread());
			}
			let j: Job = unsafe { std::mem::transmute(j) };
			if self.threads[i].as_ref().unwrap().tx.send(j).is_err() {
				eprintln!("machinery: pool thread died");
				std::process::exit(2);
			}
		}
		let mut ok = true;
		for i in 0..n {
			match self.threads[i].as_ref().unwrap().done.recv_timeout(timeout) {
				Ok(true) => {}
				Ok(false) => {
					self.threads[i] = None;
					self.respawned += 1;
				}
				Err(_) => {
					// a logical thread never came back: cannot safely continue in this process
					ok = false;
				}
			}
		}
		ok
	}
}

fn abort_point() -> (bool, u16) {
	if std::thread::panicking() {
		(true, 0)
	} else {
		resume_unwind(Box::new(AbortToken))
	}
}

/// The entry used by the raw locks.
pub fn raw_op(lock: u32, act: Act, mode: Mode) -> bool {
	let Some((exec, tid)) = ctx() else {
		// outside any execution (construction, teardown): behave as a trivially free lock
		return true;
	};
	let op = RawOp { lock, act, mode };
	let gran;
	{
		let mut g = exec.lock();
		if g.abort {
			drop(g);
			return abort_point().0;
		}
		if lock as usize >= g.locks.len() {
			// the lock table is not declared yet (world construction): nothing is tracked, every operation
			// succeeds (a mutant that spins on a try during registration must not hang the harness)
			return true;
		}
		// 1. fault check
		let idx = g.raw_counter;
		if g.threads[tid].fault_next_try && act == Act::Try {
			g.threads[tid].fault_next_try = false;
			g.faults_fired.push((idx, op));
			let call = g.threads[tid].ctx.serial;
			g.log(tid, call, EvKind::Fault { op });
			g.threads[tid].ctx.raw_ops += 1;
			let o = mix(g.threads[tid].obs, 0xfa17 << 20 | (lock as u64) << 8 | act as u64);
			g.threads[tid].obs = o;
			drop(g);
			resume_unwind(Box::new(FaultToken(op)));
		}
		if g.fault_armed {
			g.raw_counter += 1;
			let fire = match &g.fault {
				Some(FaultSpec::OneShot { index }) => *index == idx,
				Some(FaultSpec::Persistent { lock: l, on_lock, on_try, on_unlock }) => {
					*l == lock
						&& match act {
							Act::Lock => *on_lock,
							Act::Try => *on_try,
							Act::Unlock => *on_unlock,
						}
				}
				None => false,
			};
			if fire && std::thread::panicking() && !FAULT_IN_UNWIND_OK.with(|f| f.get()) {
				// a raw operation issued from a destructor that runs while the thread unwinds: if it panicked now the
				// process would abort instead of the panic reaching the caller. Report that and let the operation through.
				let what = g.threads[tid].ctx.what.clone();
				g.violations.push(Violation { prop: "C12", key: format!("raw-fault-during-unwind|{}|fault-on-{}", what_key(&what), format!("{:?}", act).to_lowercase()), detail: format!("raw {} was issued by a destructor running during an unwind (in `{}`) and is due to panic: a second panic there aborts the process, so the first panic never reaches the caller", op.short(), what) });
			} else if fire {
				g.faults_fired.push((idx, op));
				let call = g.threads[tid].ctx.serial;
				g.log(tid, call, EvKind::Fault { op });
				g.threads[tid].ctx.raw_ops += 1;
				let o = mix(g.threads[tid].obs, 0xfa17 << 20 | (lock as u64) << 8 | act as u64);
				g.threads[tid].obs = o;
				drop(g);
				resume_unwind(Box::new(FaultToken(op)));
			}
		}
		g.on_issue(tid, op);
		gran = g.gran;
		if gran == Gran::ApiCall && g.nthreads <= 1 && g.threads[tid].ctx.raw_ops > 50_000 {
			// sequential mode has no scheduler horizon: a call that keeps issuing raw operations (a spin on a try,
			// a retry loop that never retreats) would otherwise only end at the watchdog
			let what = g.threads[tid].ctx.what.clone();
			g.violations.push(Violation { prop: "C01", key: format!("livelock|{}", what_key(&what)), detail: format!("`{}` issued more than 50 000 raw lock operations without returning (last: {})", what, op.short()) });
			drop(g);
			resume_unwind(Box::new(SelfWaitToken));
		}
		if gran == Gran::ApiCall {
			// run-through unless blocked
			if act != Act::Lock || g.grantable(tid, op) {
				let r = g.apply(tid, op);
				let o = mix(g.threads[tid].obs, (op.lock as u64) << 16 | (op.act as u64) << 8 | (op.mode as u64) << 4 | r as u64);
				g.threads[tid].obs = o;
				return r;
			}
			// blocked: environment rule for foreign holders in sequential use
			let l = g.locks[lock as usize].clone();
			let foreign_only = {
				let mut hs: Vec<usize> = l.shared.clone();
				if let Some(e) = l.excl {
					hs.push(e);
				}
				let self_conflict = match mode {
					Mode::Excl => l.held_by(tid).is_some(),
					Mode::Shared => l.excl == Some(tid),
				};
				!self_conflict && hs.iter().all(|h| *h >= FOREIGN) && (!hs.is_empty() || l.queued_writer)
			};
			if foreign_only {
				let call = g.threads[tid].ctx.serial;
				let ls = &mut g.locks[lock as usize];
				ls.excl = None;
				ls.shared.clear();
				ls.queued_writer = false;
				let step = g.env_steps as usize;
				g.env_steps += 1;
				g.blocked_seen = true;
				g.log(tid, call, EvKind::Env { lock, note: "foreign holders release" });
				if let Some(Some((gl, gm))) = g.env_script.get(step).cloned() {
					if gl != lock && g.locks[gl as usize].is_free() {
						match gm {
							Mode::Excl => g.locks[gl as usize].excl = Some(FOREIGN),
							Mode::Shared => g.locks[gl as usize].shared.push(FOREIGN),
						}
						g.log(tid, call, EvKind::Env { lock: gl, note: "another thread takes this lock meanwhile" });
					}
				}
				let r = g.apply(tid, op);
				let o = mix(g.threads[tid].obs, (op.lock as u64) << 16 | (op.act as u64) << 8 | (op.mode as u64) << 4 | r as u64);
				g.threads[tid].obs = o;
				return r;
			}
			let self_conflict = match mode {
				Mode::Excl => l.held_by(tid).is_some(),
				Mode::Shared => l.excl == Some(tid),
			};
			if self_conflict && g.nthreads <= 1 {
				// can never be granted: on_issue already recorded the C01 self-wait violation
				drop(g);
				resume_unwind(Box::new(SelfWaitToken));
			}
			g.blocked_seen = true;
			// otherwise fall through and park (multi-thread ApiCall granularity)
		}
	}
	let (r, _) = exec.park(tid, Pending::Raw(op));
	if act == Act::Unlock {
		let post = exec.lock().post_release_points;
		if post {
			exec.park(tid, Pending::Yield(9));
		}
	}
	r
}

/// Scheduling point without any effect (inside critical sections, between steps).
pub fn yield_point(label: u32) {
	let Some((exec, tid)) = ctx() else { return };
	{
		let g = exec.lock();
		if g.abort {
			drop(g);
			abort_point();
			return;
		}
		if g.gran == Gran::ApiCall {
			return;
		}
	}
	exec.park(tid, Pending::Yield(label));
}

/// Step boundary in ApiCall granularity, or menu choice: returns the chosen action.
pub fn menu_point(actions: Vec<u16>) -> u16 {
	let Some((exec, tid)) = ctx() else { return actions[0] };
	let (_, c) = exec.park(tid, Pending::Menu(actions));
	c
}

pub fn start_point() {
	let Some((exec, tid)) = ctx() else { return };
	exec.park(tid, Pending::Start);
}

/// Record an observation of the calling thread (enters its observation hash).
/// Arm (or disarm) the calling thread's one-shot try fault.
pub fn set_fault_next_try(on: bool) -> bool {
	match ctx() {
		Some((exec, tid)) => {
			let mut g = exec.lock();
			let was = g.threads[tid].fault_next_try;
			g.threads[tid].fault_next_try = on;
			was
		}
		None => false,
	}
}

/// `RawLock::poison` is about to be called on these leaves by user code: from now on they count as killed (the same
/// bookkeeping as a fired raw fault: part of the hidden-flag digest, and refusals by panicking are expected).
pub fn explicit_kill(leaves: &[u32]) {
	if let Some((exec, _)) = ctx() {
		let mut g = exec.lock();
		for l in leaves {
			let idx = g.raw_counter;
			g.faults_fired.push((idx, RawOp { lock: *l, act: Act::Unlock, mode: Mode::Excl }));
		}
	}
}

thread_local! {
	/// set by the harness inside a destructor that runs during an unrelated unwind and wraps a library call in
	/// catch_unwind: a raw fault may fire there (it cannot escape the destructor)
	pub static FAULT_IN_UNWIND_OK: std::cell::Cell<bool> = const { std::cell::Cell::new(false) };
}

/// Has any injected raw-operation fault fired in this execution (so some lock may be killed)?
pub fn any_fault_fired() -> bool {
	ctx().map(|(e, _)| !e.lock().faults_fired.is_empty()).unwrap_or(false)
}

pub fn observe(v: u64) {
	if let Some((exec, tid)) = ctx() {
		let mut g = exec.lock();
		let o = mix(g.threads[tid].obs, 0x0b5 << 40 ^ v);
		g.threads[tid].obs = o;
	}
}
pub fn set_pc(pc: u32) {
	if let Some((exec, tid)) = ctx() {
		exec.lock().threads[tid].pc = pc;
	}
}
pub fn set_local(v: u64) {
	if let Some((exec, tid)) = ctx() {
		let mut g = exec.lock();
		g.threads[tid].local = v;
		g.threads[tid].use_local = true;
	}
}
/// Menu threads: the action that starts now works on target `t` (None: the action is over).
pub fn set_watch(t: Option<usize>) {
	if let Some((exec, tid)) = ctx() {
		let mut g = exec.lock();
		g.threads[tid].watch = t;
		g.threads[tid].watch_seen = 0;
		if let (Some(t), Some(pr)) = (t, g.hidden_probe.take()) {
			g.threads[tid].watch_seen = g.hidden_digest_of(&pr, Some(t));
			g.hidden_probe = Some(pr);
		}
	}
}
pub fn note(s: String) {
	if let Some((exec, tid)) = ctx() {
		let mut g = exec.lock();
		let call = g.threads[tid].ctx.serial;
		g.log(tid, call, EvKind::Note(s));
	}
}
pub fn violation(prop: &'static str, key: String, detail: String) {
	if let Some((exec, _)) = ctx() {
		let mut g = exec.lock();
		if g.abort {
			return;
		}
		g.viol(prop, key, detail);
	}
}
pub fn aborted() -> bool {
	ctx().map(|(e, _)| e.lock().abort).unwrap_or(false)
}

pub fn begin_call(kind: CallKind, retrying: bool, what: String) -> u32 {
	if let Some((exec, tid)) = ctx() {
		let mut g = exec.lock();
		g.threads[tid].call_serial += 1;
		let serial = g.threads[tid].call_serial;
		g.threads[tid].ctx = CallCtx { serial, kind, retrying, raw_ops: 0, what, blocking_seq: vec![], acquired: vec![] };
		serial
	} else {
		0
	}
}
/// Switch the kind of the current call (e.g. Acquire -> Body when the closure starts, Body -> Release when it ends)
pub fn set_call_kind(kind: CallKind) {
	if let Some((exec, tid)) = ctx() {
		let mut g = exec.lock();
		g.threads[tid].ctx.kind = kind;
		g.threads[tid].ctx.raw_ops = if kind == CallKind::Acquire || kind == CallKind::TryAcquire { 0 } else { 1 };
	}
}
pub fn end_call() -> CallCtx {
	if let Some((exec, tid)) = ctx() {
		let mut g = exec.lock();
		let c = std::mem::replace(&mut g.threads[tid].ctx, CallCtx::none());
		if !c.acquired.is_empty() {
			g.threads[tid].last_acq_seq = c.blocking_seq.clone();
			g.threads[tid].last_acquired = c.acquired.clone();
		}
		c
	} else {
		CallCtx::none()
	}
}
pub fn held_now() -> Vec<(u32, Mode)> {
	if let Some((exec, tid)) = ctx() {
		exec.lock().held(tid)
	} else {
		vec![]
	}
}
pub fn table_fp() -> u64 {
	ctx().map(|(e, _)| e.lock().table_fingerprint()).unwrap_or(0)
}
pub fn table_str() -> String {
	ctx().map(|(e, _)| e.lock().table_string()).unwrap_or_default()
}

/// Payload access bookkeeping (not a scheduling point): audit against the owner table and the shadow value.
pub fn access(leaf: u32, write: bool, seen: u64, new: u64, what: &str) {
	if let Some((exec, tid)) = ctx() {
		let mut g = exec.lock();
		if g.abort {
			return;
		}
		let held = g.locks[leaf as usize].held_by(tid);
		let ok = match (held, write) {
			(Some(Mode::Excl), _) => true,
			(Some(Mode::Shared), false) => true,
			_ => false,
		};
		if !ok {
			let t = g.table_string();
			g.viol("C02", format!("access-without-hold|{}", what_key(what)), format!("T{} {} payload of L{} during `{}` but holds it as {:?}; table: {}", tid, if write { "writes" } else { "reads" }, leaf, what, held, t));
		}
		// others must not overlap
		let l = g.locks[leaf as usize].clone();
		let overlap = if write { l.excl.map(|e| e != tid).unwrap_or(false) || l.shared.iter().any(|s| *s != tid) } else { l.excl.map(|e| e != tid).unwrap_or(false) };
		if overlap {
			let t = g.table_string();
			g.viol("C02", format!("overlap|{}", what_key(what)), format!("T{} accesses L{} while another thread holds it: {}", tid, leaf, t));
		}
		let sh = g.shadow[leaf as usize];
		if seen != sh {
			g.viol("C02", format!("stale-value|{}", what_key(what)), format!("T{} sees value {} in L{} but the last exclusive section left {} (`{}`)", tid, seen, leaf, sh, what));
		}
		if write {
			g.shadow[leaf as usize] = new;
		}
		let o = mix(g.threads[tid].obs, 0xacc << 40 ^ (leaf as u64) << 32 ^ (write as u64) << 31 ^ seen);
		g.threads[tid].obs = o;
	}
}

// ---------------------------------------------------------------------------------
// The raw locks
// ---------------------------------------------------------------------------------

pub struct VMutex {
	id: AtomicU32,
}
pub struct VRw {
	id: AtomicU32,
}

enum Lid {
	Named(u32),
	Registered,
	Unnamed,
}
fn lock_id(a: &AtomicU32) -> Lid {
	let v = a.load(Ordering::Relaxed);
	if v != 0 {
		return Lid::Named(v - 1);
	}
	let reg = REG.with(|r| r.borrow_mut().take());
	if let Some(id) = reg {
		a.store(id + 1, Ordering::Relaxed);
		Lid::Registered // registration touch: no effect
	} else {
		Lid::Unnamed
	}
}
fn vop(a: &AtomicU32, act: Act, mode: Mode) -> bool {
	match lock_id(a) {
		Lid::Named(id) => raw_op(id, act, mode),
		Lid::Registered => false,
		Lid::Unnamed => true,
	}
}

unsafe impl lock_api::RawMutex for VMutex {
	#[allow(clippy::declare_interior_mutable_const)]
	const INIT: Self = VMutex { id: AtomicU32::new(0) };
	type GuardMarker = lock_api::GuardNoSend;
	fn lock(&self) {
		vop(&self.id, Act::Lock, Mode::Excl);
	}
	fn try_lock(&self) -> bool {
		vop(&self.id, Act::Try, Mode::Excl)
	}
	unsafe fn unlock(&self) {
		vop(&self.id, Act::Unlock, Mode::Excl);
	}
}

unsafe impl lock_api::RawRwLock for VRw {
	#[allow(clippy::declare_interior_mutable_const)]
	const INIT: Self = VRw { id: AtomicU32::new(0) };
	type GuardMarker = lock_api::GuardNoSend;
	fn lock_shared(&self) {
		vop(&self.id, Act::Lock, Mode::Shared);
	}
	fn try_lock_shared(&self) -> bool {
		vop(&self.id, Act::Try, Mode::Shared)
	}
	unsafe fn unlock_shared(&self) {
		vop(&self.id, Act::Unlock, Mode::Shared);
	}
	fn lock_exclusive(&self) {
		vop(&self.id, Act::Lock, Mode::Excl);
	}
	fn try_lock_exclusive(&self) -> bool {
		vop(&self.id, Act::Try, Mode::Excl)
	}
	unsafe fn unlock_exclusive(&self) {
		vop(&self.id, Act::Unlock, Mode::Excl);
	}
}

// ---------------------------------------------------------------------------------
// Running logical threads
// ---------------------------------------------------------------------------------

/// Classification of how a logical thread's body ended.
pub fn classify_panic(p: &Box<dyn Any + Send>) -> String {
	if p.is::<AbortToken>() {
		"abort".into()
	} else if p.is::<SelfWaitToken>() {
		"self-wait".into()
	} else if let Some(f) = p.downcast_ref::<FaultToken>() {
		format!("fault:{}", f.0.short())
	} else if let Some(u) = p.downcast_ref::<UserPanic>() {
		format!("user-panic:{}", u.0)
	} else if let Some(s) = p.downcast_ref::<&str>() {
		format!("panic:{}", s)
	} else if let Some(s) = p.downcast_ref::<String>() {
		format!("panic:{}", s)
	} else {
		"panic:?".into()
	}
}

/// Body wrapper for a logical thread running on its own OS thread.
pub fn run_logical<F: FnOnce()>(exec: Arc<Exec>, tid: usize, f: F) {
	set_ctx(exec.clone(), tid);
	let r = catch_unwind(AssertUnwindSafe(|| {
		start_point();
		f();
	}));
	let outcome = match r {
		Ok(()) => "ok".to_string(),
		Err(p) => classify_panic(&p),
	};
	exec.finish_thread(tid, outcome);
	clear_ctx();
}

pub fn quiet_panics() {
	std::panic::set_hook(Box::new(|info| {
		// stay silent for panics inside executions; print the rest (harness bugs)
		if ctx().is_none() {
			eprintln!("[harness panic] {}", info);
		}
	}));
}

// ---------------------------------------------------------------------------------
// Reference-model helpers shared between threads of an execution
// ---------------------------------------------------------------------------------

pub fn leak_leaves(leaves: &[u32]) {
	if let Some((exec, _)) = ctx() {
		let mut g = exec.lock();
		for l in leaves {
			if !g.leaked.contains(l) {
				g.leaked.push(*l);
			}
		}
		g.leaked.sort();
	}
}
pub fn leaked_any(leaves: &[u32]) -> bool {
	ctx().map(|(e, _)| {
		let g = e.lock();
		leaves.iter().any(|l| g.leaked.contains(l))
	}).unwrap_or(false)
}
pub fn all_free(leaves: &[u32]) -> bool {
	ctx().map(|(e, _)| {
		let g = e.lock();
		leaves.iter().all(|l| g.locks[*l as usize].is_free())
	}).unwrap_or(true)
}
/// Would an acquisition of these leaves in this mode succeed right now (quiescent view)?
pub fn acquirable(leaves: &[u32], write: bool) -> bool {
	ctx().map(|(e, _)| {
		let g = e.lock();
		leaves.iter().all(|l| {
			let st = &g.locks[*l as usize];
			if write || !g.lock_is_rw[*l as usize] { st.is_free() } else { st.excl.is_none() }
		})
	}).unwrap_or(true)
}

pub const PM_FALSE: u8 = 0;
pub const PM_TRUE: u8 = 1;
pub const PM_ANY: u8 = 2;
pub const PM_INFLIGHT: u8 = 3;
pub const PM_INFLIGHT_SHARED: u8 = 4;

/// A panic starts unwinding while the caller holds these flags' locks. `flags` = (flag, culprit key);
/// `excl` says whether the hold is exclusive.
pub fn pm_panic_begin(flags: &[(u32, String, Vec<u32>)], excl: bool) {
	if let Some((exec, tid)) = ctx() {
		let mut g = exec.lock();
		for (f, culprit, leaves) in flags {
			let cur = g.pmodel.get(f).copied().unwrap_or(PM_FALSE);
			if excl {
				g.pmodel.insert(*f, PM_INFLIGHT);
				g.pculprit.insert(*f, culprit.clone());
				g.threads[tid].inflight.push((*f, leaves.clone()));
			} else if cur == PM_FALSE {
				g.pmodel.insert(*f, PM_INFLIGHT_SHARED);
			}
		}
	}
}
pub fn pm_panic_end(flags: &[(u32, String, Vec<u32>)]) {
	if let Some((exec, tid)) = ctx() {
		let mut g = exec.lock();
		g.threads[tid].inflight.clear();
		for (f, _, _) in flags {
			match g.pmodel.get(f).copied() {
				Some(PM_INFLIGHT) => {
					g.pmodel.insert(*f, PM_TRUE);
				}
				Some(PM_INFLIGHT_SHARED) => {
					g.pmodel.insert(*f, PM_ANY);
				}
				_ => {}
			}
		}
	}
}
pub fn pm_clear(f: u32) {
	if let Some((exec, _)) = ctx() {
		let mut g = exec.lock();
		let cur = g.pmodel.get(&f).copied().unwrap_or(PM_FALSE);
		// clearing while a panic is in flight on another thread is racy by design: unconstrained afterwards
		g.pmodel.insert(f, if cur == PM_INFLIGHT || cur == PM_INFLIGHT_SHARED { PM_ANY } else { PM_FALSE });
	}
}
pub fn pm_culprit(f: u32) -> String {
	ctx().and_then(|(e, _)| e.lock().pculprit.get(&f).cloned()).unwrap_or_default()
}
pub fn pm_expect(f: u32) -> Option<bool> {
	ctx().and_then(|(e, _)| {
		let g = e.lock();
		match g.pmodel.get(&f).copied().unwrap_or(PM_FALSE) {
			PM_FALSE => Some(false),
			PM_TRUE => Some(true),
			_ => None,
		}
	})
}
