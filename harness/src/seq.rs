//! Sequential mode: one logical thread, API-call granularity, "another thread holds it"
//! written straight into the owner table, run-to-block completion through the
//! environment rule (DESIGN.md §3.5). Plus the parallel case driver.

use std::panic::{catch_unwind, AssertUnwindSafe};
use std::sync::atomic::{AtomicUsize, Ordering};
use std::sync::{Arc, Mutex};

use happylock::lockable::RawLock;
use happylock::ThreadKey;

use crate::rt::{self, Exec, FaultSpec, Gran, Mode, Policy, Violation, FOREIGN};
use crate::spec::World;
use crate::world::{Arena, Store};

pub struct SeqOut<T> {
	pub value: Option<T>,
	pub outcome: String,
	pub violations: Vec<Violation>,
	pub trace: Vec<String>,
	pub raw_ops: usize,
	pub faults_fired: Vec<(usize, rt::RawOp)>,
	pub env_steps: u32,
	pub table_after: String,
	pub held_after: Vec<(u32, Mode)>,
}

/// Handle given to a case body.
pub struct SeqCtl {
	pub exec: Arc<Exec>,
}
impl SeqCtl {
	/// Declare the lock table from the world (call after all targets are built).
	pub fn init(&self, world: &World<'_>) {
		self.exec.set_locks(world.is_rw.borrow().clone(), world.unit.borrow().clone());
	}
	/// Another thread holds `leaf`.
	pub fn prehold(&self, leaf: u32, mode: Mode) {
		let mut g = self.exec.lock();
		match mode {
			Mode::Excl => g.locks[leaf as usize].excl = Some(FOREIGN),
			Mode::Shared => g.locks[leaf as usize].shared.push(FOREIGN),
		}
	}
	pub fn queue_writer(&self, leaf: u32) {
		self.exec.lock().locks[leaf as usize].queued_writer = true;
	}
	pub fn arm_fault(&self, f: FaultSpec) {
		let mut g = self.exec.lock();
		g.fault = Some(f);
		g.fault_armed = true;
		g.raw_counter = 0;
	}
	pub fn arm_counting(&self) {
		let mut g = self.exec.lock();
		g.fault = None;
		g.fault_armed = true;
		g.raw_counter = 0;
	}
	pub fn disarm(&self) -> usize {
		let mut g = self.exec.lock();
		g.fault_armed = false;
		g.fault = None;
		g.raw_counter
	}
	pub fn table_fp(&self) -> u64 {
		self.exec.lock().table_fingerprint()
	}
	pub fn table_string(&self) -> String {
		self.exec.lock().table_string()
	}
	pub fn holder(&self, leaf: u32) -> (Option<usize>, Vec<usize>) {
		let g = self.exec.lock();
		(g.locks[leaf as usize].excl, g.locks[leaf as usize].shared.clone())
	}
	pub fn violations(&self) -> Vec<Violation> {
		self.exec.lock().violations.clone()
	}
	pub fn last_acq_seq(&self) -> Vec<u32> {
		self.exec.lock().threads[0].last_acq_seq.clone()
	}
	pub fn last_acquired(&self) -> Vec<(u32, Mode)> {
		self.exec.lock().threads[0].last_acquired.clone()
	}
	pub fn env_steps(&self) -> u32 {
		self.exec.lock().env_steps
	}
	/// Remove every hold of the pseudo thread.
	pub fn release_foreign(&self) {
		let mut g = self.exec.lock();
		for l in g.locks.iter_mut() {
			if l.excl == Some(FOREIGN) {
				l.excl = None;
			}
			l.shared.retain(|t| *t != FOREIGN);
			l.queued_writer = false;
		}
	}
	/// Is this leaf "killed" (refuses acquisition although the table says it is free)?
	/// Probes with raw try operations; leaves the table unchanged.
	pub fn probe_killed(&self, lock: &dyn RawLock, leaf: u32) -> Option<bool> {
		let free = self.exec.lock().locks[leaf as usize].is_free();
		if !free {
			return None;
		}
		rt::begin_call(rt::CallKind::None, false, "probe".into());
		let ok = unsafe { lock.raw_try_write() };
		if ok {
			unsafe { lock.raw_unlock_write() };
		}
		rt::end_call();
		Some(!ok)
	}
}

/// Run one sequential case on the current OS thread (which must have a clean key).
pub fn case<T>(policy: Policy, keep_trace: bool, body: impl FnOnce(&World<'_>, &SeqCtl) -> T) -> SeqOut<T> {
	let exec = Exec::new(Gran::ApiCall, policy, 1, vec![]);
	{
		let mut g = exec.lock();
		g.keep_trace = keep_trace;
		g.threads[0].status = rt::Status::Running;
		g.turn = Some(0);
	}
	let ctl = SeqCtl { exec: exec.clone() };
	rt::set_ctx(exec.clone(), 0);
	let r = catch_unwind(AssertUnwindSafe(|| {
		let store = Store::new();
		let arena = Arena::new_in(&store);
		let world = World::new(arena, &store);
		ctl.init(&world);
		let v = body(&world, &ctl);
		// teardown of the world happens with the context still set but nothing should lock
		v
	}));
	rt::clear_ctx();
	let (value, outcome) = match r {
		Ok(v) => (Some(v), "ok".to_string()),
		Err(p) => (None, rt::classify_panic(&p)),
	};
	let g = exec.lock();
	let trace = g
		.trace
		.iter()
		.map(|e| match &e.what {
			rt::EvKind::Raw { op, ok, note } => format!("call#{} {} -> {}{}", e.call, op.short(), ok, if note.is_empty() { String::new() } else { format!(" [{}]", note) }),
			rt::EvKind::Fault { op } => format!("call#{} FAULT instead of {}", e.call, op.short()),
			rt::EvKind::Env { lock, note } => format!("env: L{} {}", lock, note),
			rt::EvKind::Note(s) => format!("note: {}", s),
		})
		.collect();
	SeqOut { value, outcome, violations: g.violations.clone(), trace, raw_ops: g.raw_counter, faults_fired: g.faults_fired.clone(), env_steps: g.env_steps, table_after: g.table_string(), held_after: g.held(0) }
}

pub fn key_clean() -> bool {
	match ThreadKey::get() {
		Some(k) => {
			drop(k);
			true
		}
		None => false,
	}
}

/// Run `f` over all cases in parallel. Each worker is a fresh OS thread; a worker whose
/// thread-local key was leaked by a case retires and is replaced.
/// Longest a single case may run before the check gives up (cases take milliseconds; rustc cases seconds).
const STUCK_CASE_SECS: u64 = 180;

pub fn par_cases<C: Sync, R: Send>(cases: &[C], f: impl Fn(usize, &C) -> R + Sync) -> Vec<R> {
	// stuck-case watchdog: (case index + 1, start time in ms since the sweep began) per running case
	let t0 = std::time::Instant::now();
	let running: Mutex<std::collections::BTreeMap<usize, u128>> = Mutex::new(Default::default());
	let finished = std::sync::atomic::AtomicBool::new(false);
	let f = |i: usize, c: &C| -> R {
		running.lock().unwrap().insert(i, t0.elapsed().as_millis());
		let r = f(i, c);
		running.lock().unwrap().remove(&i);
		r
	};
	let out = std::thread::scope(|ws| {
		ws.spawn(|| {
			while !finished.load(Ordering::Relaxed) {
				std::thread::sleep(std::time::Duration::from_millis(500));
				// the clock is read under the lock and the difference saturates: a case registered after `now` was
				// taken must not look infinitely old
				let stuck: Option<usize> = {
					let g = running.lock().unwrap();
					let now = t0.elapsed().as_millis();
					g.iter().find(|(_, st)| now.saturating_sub(**st) > STUCK_CASE_SECS as u128 * 1000).map(|(i, _)| *i)
				};
				if let Some(i) = stuck {
					eprintln!("MACHINERY-ERROR: case #{} of a sweep of {} cases has been running for more than {} s (an operation that neither returns nor reaches a raw lock operation); giving up", i, cases.len(), STUCK_CASE_SECS);
					std::process::exit(3);
				}
			}
		});
		let r = par_cases_inner(cases, &f);
		finished.store(true, Ordering::Relaxed);
		r
	});
	out
}

fn par_cases_inner<C: Sync, R: Send>(cases: &[C], f: &(dyn Fn(usize, &C) -> R + Sync)) -> Vec<R> {
	let next = AtomicUsize::new(0);
	let out: Mutex<Vec<(usize, R)>> = Mutex::new(Vec::with_capacity(cases.len()));
	let nworkers = crate::conc::workers().min(cases.len().max(1));
	fn worker<'s, 'e, C: Sync, R: Send>(scope: &'s std::thread::Scope<'s, 'e>, cases: &'e [C], f: &'e (dyn Fn(usize, &C) -> R + Sync), next: &'e AtomicUsize, out: &'e Mutex<Vec<(usize, R)>>) {
		let mut local = vec![];
		loop {
			let i = next.fetch_add(1, Ordering::Relaxed);
			if i >= cases.len() {
				break;
			}
			let r = f(i, &cases[i]);
			local.push((i, r));
			if !key_clean() {
				// tainted: hand over to a fresh thread
				std::thread::Builder::new().stack_size(1024 * 1024).spawn_scoped(scope, move || worker(scope, cases, f, next, out)).expect("spawn");
				break;
			}
		}
		out.lock().unwrap().extend(local);
	}
	std::thread::scope(|s| {
		for _ in 0..nworkers {
			let (fr, nx, o) = (&f as &(dyn Fn(usize, &C) -> R + Sync), &next, &out);
			std::thread::Builder::new().stack_size(1024 * 1024).spawn_scoped(s, move || worker(s, cases, fr, nx, o)).expect("spawn");
		}
	});
	let mut v = out.into_inner().unwrap();
	v.sort_by_key(|x| x.0);
	v.into_iter().map(|x| x.1).collect()
}
