#![allow(dead_code)]
mod conc;
mod corpus;
mod drops;
mod explore;
mod families;
mod halloc;
mod faults;
mod interp;
mod menu;
mod menuchecks;
mod report;
mod rt;
mod seq;
mod seqchecks;
mod shapes;
mod spec;
mod world;

#[global_allocator]
static GLOBAL: halloc::HAlloc = halloc::HAlloc;

fn main() {
	rt::quiet_panics();
	let args: Vec<String> = std::env::args().collect();
	let cmd = args.get(1).map(|s| s.as_str()).unwrap_or("");
	let tier = report::tier_from_args(&args);
	match cmd {
		"C01" | "C02" | "C05" => conc::check_core(cmd, &tier),
		"C03" => menuchecks::check_c03(&tier),
		"C09" => conc::check_c09(&tier),
		"C11" => conc::check_c11(&tier),
		"C10" => menuchecks::check_c10(&tier),
		"C06" => menuchecks::check_c06(&tier),
		"C04" => seqchecks::check_c04(&tier),
		"C07" => seqchecks::check_c07(&tier),
		"C08" => seqchecks::check_c08(&tier),
		"C12" => faults::check_c12(&tier),
		"C13" => seqchecks::check_c13(&tier),
		"C14" => corpus::check("C14", &tier),
		"C15" => corpus::check("C15", &tier),
		"C16" => drops::check(&tier),
		"C16-child" => drops::child(),
		"C17" => seqchecks::check_c17(&tier),
		"replay" => replay_cmd(args.get(2).map(|s| s.as_str()).unwrap_or("")),
		_ => {
			eprintln!("usage: hlverif <C01..C17|replay> <quick|thorough>");
			std::process::exit(2);
		}
	}
}

fn replay_cmd(path: &str) -> ! {
	let text = std::fs::read_to_string(path).unwrap_or_else(|e| {
		eprintln!("cannot read {}: {}", path, e);
		std::process::exit(2)
	});
	let v: serde_json::Value = serde_json::from_str(&text).expect("replay file is JSON");
	println!("property {} :: {}\n  {}", v["property"], v["key"], v["detail"]);
	let r = &v["replay"];
	match r["kind"].as_str().unwrap_or("") {
		"concurrent" => {
			let prog: interp::Program = serde_json::from_value(r["program"].clone()).expect("program");
			let cfg: explore::Cfg = serde_json::from_value(r["cfg"].clone()).expect("cfg");
			let sched: Vec<(u8, u16)> = serde_json::from_value(r["schedule"].clone()).expect("schedule");
			println!("program: {}", prog.describe());
			println!("schedule: {}", sched.iter().map(|(t, a)| format!("T{}:{}", t, conc::describe_act(&prog, *t as usize, *a))).collect::<Vec<_>>().join(" "));
			// replay twice: the two traces must be identical (determinism)
			let a = explore::replay(&prog, &cfg, &sched);
			let b = explore::replay(&prog, &cfg, &sched);
			match (a, b) {
				(Ok((la, va)), Ok((lb, _))) => {
					for l in &la {
						println!("  {}", l);
					}
					for x in &va {
						println!("VIOLATION-REPRODUCED property={} {} :: {}", x.prop, x.key, x.detail);
					}
					if la != lb {
						eprintln!("machinery: the two replays differ");
						std::process::exit(2);
					}
					std::process::exit(if va.is_empty() && !la.iter().any(|l| l.starts_with("DEADLOCK")) { 0 } else { 1 });
				}
				(Err(e), _) | (_, Err(e)) => {
					eprintln!("machinery: {}", e);
					std::process::exit(2);
				}
			}
		}
		"seq-fault" => {
			let c: faults::FaultCase = serde_json::from_value(r["case"].clone()).expect("case");
			println!("case: {} {} leaf-states={:?} fault={:?}", c.spec.describe(), c.flavour.api(c.write), c.assign, c.fault);
			let o = faults::run_fault_case(&c, true);
			for l in &o.trace {
				println!("  {}", l);
			}
			for x in &o.violations {
				println!("VIOLATION-REPRODUCED property={} {} :: {}", x.prop, x.key, x.detail);
			}
			std::process::exit(if o.violations.is_empty() { 0 } else { 1 });
		}
		"seq-acquire" => {
			let spec: spec::Spec = serde_json::from_value(r["spec"].clone()).expect("spec");
			let assign: Vec<u8> = serde_json::from_value(r["assign"].clone()).expect("assign");
			let flavour: interp::Flavour = serde_json::from_value(r["flavour"].clone()).expect("flavour");
			let write = r["write"].as_bool().unwrap_or(true);
			println!("case: {} {} leaf-states(0 free,1 read-held,2 write-held by another thread)={:?}", spec.describe(), flavour.api(write), assign);
			let poisoned = r["poisoned"].as_u64().map(|v| v as u8).unwrap_or(r["poisoned"].as_bool().unwrap_or(false) as u8);
			let o = seqchecks::run_acq_case(&spec, &assign, flavour, write, poisoned, true);
			for l in &o.trace {
				println!("  {}", l);
			}
			println!("  outcome: {} held afterwards: {:?} table: {}", o.outcome, o.held_after, o.table_after);
			for x in &o.violations {
				println!("VIOLATION-REPRODUCED property={} {} :: {}", x.prop, x.key, x.detail);
			}
			std::process::exit(if o.violations.is_empty() { 0 } else { 1 });
		}
		"seq-nested-unwind" => {
			let spec: spec::Spec = serde_json::from_value(r["spec"].clone()).expect("spec");
			let flavour: interp::Flavour = serde_json::from_value(r["flavour"].clone()).expect("flavour");
			let write = r["write"].as_bool().unwrap_or(true);
			let panic = r["panic_in_nested_call"].as_bool().unwrap_or(true);
			println!("case: a destructor running during an unwind calls {} {} (panic inside that call: {})", spec.describe(), flavour.api(write), panic);
			let o = seqchecks::run_nested_unwind_case(&spec, write, flavour, panic, true);
			for l in &o.trace {
				println!("  {}", l);
			}
			println!("  outcome: {} held afterwards: {:?} table: {}", o.outcome, o.held_after, o.table_after);
			for x in &o.violations {
				println!("VIOLATION-REPRODUCED property={} {} :: {}", x.prop, x.key, x.detail);
			}
			std::process::exit(if o.violations.is_empty() { 0 } else { 1 });
		}
		"seq-nonacq" => {
			let spec: spec::Spec = serde_json::from_value(r["spec"].clone()).expect("spec");
			let c = seqchecks::NaCase {
				spec: 0,
				assign: serde_json::from_value(r["assign"].clone()).expect("assign"),
				holder: serde_json::from_value(r["holder"].clone()).expect("holder"),
				op: serde_json::from_value(r["op"].clone()).expect("op"),
				policy: serde_json::from_value(r["policy"].clone()).expect("policy"),
				queued_writer: r["queued_writer"].as_bool().unwrap_or(false),
			};
			println!("case: {:?} on {} with leaf states {:?} (0 free, 1 read-held, 2 write-held) held by {:?}", c.op, spec.describe(), c.assign, c.holder);
			let o = seqchecks::run_nonacq_case(&spec, &c, true);
			for l in &o.trace {
				println!("  {}", l);
			}
			println!("  outcome: {} table: {}", o.outcome, o.table_after);
			for x in &o.violations {
				println!("VIOLATION-REPRODUCED property={} {} :: {}", x.prop, x.key, x.detail);
			}
			std::process::exit(if o.violations.is_empty() && o.outcome == "ok" { 0 } else { 1 });
		}
		"compile" => {
			println!("offending line: {}\ntwin line:      {}\nfiles: {}", r["offending_line"], r["twin_line"], r["files"]);
			std::process::exit(0);
		}
		other => {
			println!("replay kind `{}`: the case is fully described above ({}); re-run the property's check to reproduce it", other, r);
			std::process::exit(0);
		}
	}
}
