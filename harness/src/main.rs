#![allow(dead_code)]
mod conc;
mod corpus;
mod explore;
mod families;
mod faults;
mod interp;
mod menu;
mod menuchecks;
mod report;
mod rt;
mod seq;
mod seqchecks;
mod shapes;
mod spec;
mod world;

fn main() {
	rt::quiet_panics();
	let args: Vec<String> = std::env::args().collect();
	let cmd = args.get(1).map(|s| s.as_str()).unwrap_or("");
	let tier = report::tier_from_args(&args);
	match cmd {
		"C01" | "C02" | "C05" => conc::check_core(cmd, &tier),
		"C03" => menuchecks::check_c03(&tier),
		"C09" => conc::check_c09(&tier),
		"C11" => conc::check_c11(&tier),
		"C10" => menuchecks::check_c10(&tier),
		"C06" => menuchecks::check_c06(&tier),
		"C04" => seqchecks::check_c04(&tier),
		"C07" => seqchecks::check_c07(&tier),
		"C08" => seqchecks::check_c08(&tier),
		"C12" => faults::check_c12(&tier),
		"C13" => seqchecks::check_c13(&tier),
		"C14" => corpus::check("C14", &tier),
		"C15" => corpus::check("C15", &tier),
		"C17" => seqchecks::check_c17(&tier),
		_ => {
			eprintln!("usage: hlverif <C01..C17|replay> <quick|thorough>");
			std::process::exit(2);
		}
	}
}
