#![allow(dead_code)]
mod rt;
mod world;
mod spec;
mod interp;
mod explore;

use interp::*;
use spec::*;

fn main() {
	rt::quiet_panics();
	let mk = |k1: Kind, k2: Kind| Program {
		specs: vec![Spec::Coll(k1, vec![Spec::R(0), Spec::R(1)]), Spec::Coll(k2, vec![Spec::R(1), Spec::R(0)])],
		threads: vec![
			vec![Step::Acq { target: 0, write: true, flavour: Flavour::Guard, body: Body::TOUCH }],
			vec![Step::Acq { target: 1, write: true, flavour: Flavour::Guard, body: Body::TOUCH }],
		],
		policy: rt::Policy::RP,
		name: format!("{:?}-{:?}", k1, k2),
	};
	for k1 in KINDS {
		for k2 in KINDS {
			let p = mk(k1, k2);
			let t = std::time::Instant::now();
			let o = explore::explore(&p, &explore::Cfg::default());
			println!("{} -> {:?} found={:?} mach={:?} in {:?}", p.describe(), o.stats, o.found.iter().map(|f| (&f.violation.key, &f.violation.detail, &f.schedule)).collect::<Vec<_>>(), o.machinery, t.elapsed());
		}
	}
}
