//! The harness's global allocator. While a world is being built (`BuildScope`), every heap allocation
//! of the building thread is served by bump allocation from that thread's slice of one fixed region,
//! right behind the `Store`. The *relative addresses* of everything a world owns - including the
//! heap buffers of `Vec`s and `Box`es that the library or the harness allocates for it - are
//! therefore identical in every execution and every worker thread, so a (changed) library that
//! sorts such objects by address still replays deterministically. Outside a build scope the system
//! allocator is used. Memory of a slice is reclaimed wholesale when the next `Store` is created.

use std::alloc::{GlobalAlloc, Layout, System};
use std::cell::Cell;
use std::sync::atomic::{AtomicBool, AtomicUsize, Ordering};

pub const SLICE_BYTES: usize = 4 << 20;
/// the first part of a slice is the `Store`'s own bump area, the rest serves heap allocations
pub const STORE_BYTES: usize = 1 << 20;
const SLICES: usize = 192;

static BASE: AtomicUsize = AtomicUsize::new(0);
#[allow(clippy::declare_interior_mutable_const)]
const FREE: AtomicBool = AtomicBool::new(false);
static USED: [AtomicBool; SLICES] = [FREE; SLICES];

thread_local! {
	static ACTIVE: Cell<bool> = const { Cell::new(false) };
	static SLICE: Cell<usize> = const { Cell::new(usize::MAX) };
	static HEAP_OFF: Cell<usize> = const { Cell::new(STORE_BYTES) };
	static RELEASE: SliceRelease = const { SliceRelease };
}

struct SliceRelease;
impl Drop for SliceRelease {
	fn drop(&mut self) {
		let i = SLICE.try_with(|s| s.get()).unwrap_or(usize::MAX);
		if i != usize::MAX {
			USED[i].store(false, Ordering::Release);
		}
	}
}

fn region_base() -> usize {
	let b = BASE.load(Ordering::Acquire);
	if b != 0 {
		return b;
	}
	let layout = Layout::from_size_align(SLICES * SLICE_BYTES, 4096).unwrap();
	let p = unsafe { System.alloc(layout) } as usize;
	assert!(p != 0, "harness: cannot reserve the world region");
	match BASE.compare_exchange(0, p, Ordering::AcqRel, Ordering::Acquire) {
		Ok(_) => p,
		Err(other) => {
			unsafe { System.dealloc(p as *mut u8, layout) };
			other
		}
	}
}

/// Base address of the calling thread's slice (claimed on first use, released when the thread ends).
pub fn my_slice() -> *mut u8 {
	let base = region_base();
	let i = SLICE.with(|s| {
		if s.get() == usize::MAX {
			let mut found = usize::MAX;
			for (i, u) in USED.iter().enumerate() {
				if u.compare_exchange(false, true, Ordering::AcqRel, Ordering::Acquire).is_ok() {
					found = i;
					break;
				}
			}
			assert!(found != usize::MAX, "harness: more than {} live threads own a world", SLICES);
			s.set(found);
			RELEASE.with(|_| ());
		}
		s.get()
	});
	(base + i * SLICE_BYTES) as *mut u8
}

/// A new world starts: everything the previous one allocated in this thread's slice is gone.
pub fn reset_heap() {
	HEAP_OFF.with(|h| h.set(STORE_BYTES));
}

/// While alive, the calling thread's heap allocations come from its slice.
pub struct BuildScope(bool);
impl BuildScope {
	pub fn enter() -> Self {
		let _ = my_slice();
		BuildScope(ACTIVE.with(|a| a.replace(true)))
	}
}
impl Drop for BuildScope {
	fn drop(&mut self) {
		let prev = self.0;
		let _ = ACTIVE.try_with(|a| a.set(prev));
	}
}

#[inline]
fn in_region(p: usize) -> bool {
	let b = BASE.load(Ordering::Relaxed);
	b != 0 && p >= b && p < b + SLICES * SLICE_BYTES
}

pub struct HAlloc;

unsafe impl GlobalAlloc for HAlloc {
	unsafe fn alloc(&self, layout: Layout) -> *mut u8 {
		if ACTIVE.try_with(|a| a.get()).unwrap_or(false) {
			let i = SLICE.try_with(|s| s.get()).unwrap_or(usize::MAX);
			if i != usize::MAX {
				let base = BASE.load(Ordering::Relaxed) + i * SLICE_BYTES;
				let got = HEAP_OFF.try_with(|h| {
					let align = layout.align().max(16);
					let start = (h.get() + align - 1) / align * align;
					let end = start + layout.size().max(1);
					if end <= SLICE_BYTES {
						h.set(end);
						Some(start)
					} else {
						None
					}
				});
				if let Ok(Some(start)) = got {
					return (base + start) as *mut u8;
				}
			}
		}
		System.alloc(layout)
	}
	unsafe fn dealloc(&self, ptr: *mut u8, layout: Layout) {
		if in_region(ptr as usize) {
			return;
		}
		System.dealloc(ptr, layout)
	}
	unsafe fn realloc(&self, ptr: *mut u8, layout: Layout, new_size: usize) -> *mut u8 {
		if in_region(ptr as usize) {
			let new = self.alloc(Layout::from_size_align_unchecked(new_size, layout.align()));
			if !new.is_null() {
				std::ptr::copy_nonoverlapping(ptr, new, layout.size().min(new_size));
			}
			return new;
		}
		System.realloc(ptr, layout, new_size)
	}
}
