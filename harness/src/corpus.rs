//! C14 / C15: bounded-exhaustive enumeration of a generated space of client programs
//! (escape route x receiver type x API x key style), each paired with a compiling twin that
//! differs only in the marked line; rustc (against the rlib built from /repo's working tree) decides
//! every member. There are no executions to explore for a type-system property; what is enumerated
//! completely is the program family.

use std::collections::BTreeSet;
use std::process::Command;

use serde_json::{json, Value};

use crate::report::{Report, Viol};
use crate::seq::par_cases;

#[derive(Clone, Debug)]
pub struct Entry {
	pub id: String,
	pub prop: &'static str,
	pub route: String,
	/// lines before the marked line (inside `fn case()`)
	pub pre: String,
	pub bad: String,
	pub good: String,
	pub post: String,
	/// acceptable error codes for the offending variant
	pub codes: Vec<&'static str>,
	/// extra items outside fn case
	pub items: String,
	/// lines (relative to the marked line, 0 = marked) on which the primary span may sit
	pub span_slack: i64,
}

const PRELUDE: &str = "#![allow(unused, dead_code, clippy::all)]\nuse happylock::collection::*;\nuse happylock::lockable::*;\nuse happylock::poisonable::*;\nuse happylock::*;\nuse std::cell::Cell;\nuse std::rc::Rc;\nfn use_ref<T: ?Sized>(_: &T) {}\nfn need_send<T: Send>(_: &T) {}\nfn need_sync<T: Sync>(_: &T) {}\nfn need_clone<T: Clone>(_: &T) {}\nfn need_send_t<T: Send>() {}\nfn need_sync_t<T: Sync>() {}\n";

impl Entry {
	fn source(&self, bad: bool) -> (String, usize) {
		let mut s = String::from(PRELUDE);
		s += &self.items;
		s += "\npub fn case() {\n";
		s += &self.pre;
		let mark = s.lines().count() + 1;
		s += if bad { &self.bad } else { &self.good };
		s += " // MARK\n";
		s += &self.post;
		s += "}\n";
		(s, mark)
	}
}

fn e(prop: &'static str, route: &str, recv: &str, pre: &str, bad: &str, good: &str, post: &str, codes: &[&'static str]) -> Entry {
	Entry { id: String::new(), prop, route: format!("{}|{}", route, recv), pre: pre.into(), bad: bad.into(), good: good.into(), post: post.into(), codes: codes.to_vec(), items: String::new(), span_slack: 0 }
}

/// Receivers: (name, setup lines, blocking exclusive guard call with key expr `K`, scoped exclusive call name, sharable)
struct Recv {
	name: &'static str,
	setup: &'static str,
	lock: &'static str,
	try_lock: &'static str,
	scoped: &'static str,
	scoped_try: &'static str,
	read: Option<(&'static str, &'static str, &'static str, &'static str)>,
	unlock: &'static str,
	/// deref chain to an i32 place from the guard `g`
	place: &'static str,
	/// closure body using the data `d`
	touch: &'static str,
}

fn receivers() -> Vec<Recv> {
	vec![
		Recv { name: "Mutex", setup: "\tlet c = Mutex::new(1);\n", lock: "c.lock(K)", try_lock: "c.try_lock(K)", scoped: "scoped_lock", scoped_try: "scoped_try_lock", read: None, unlock: "Mutex::unlock(g)", place: "*g", touch: "*d += 1" },
		Recv { name: "RwLock", setup: "\tlet c = RwLock::new(1);\n", lock: "c.write(K)", try_lock: "c.try_write(K)", scoped: "scoped_write", scoped_try: "scoped_try_write", read: Some(("c.read(K)", "c.try_read(K)", "scoped_read", "scoped_try_read")), unlock: "RwLock::unlock_write(g)", place: "*g", touch: "*d += 1" },
		Recv { name: "Boxed<tuple>", setup: "\tlet c = LockCollection::new((RwLock::new(1), RwLock::new(2)));\n", lock: "c.lock(K)", try_lock: "c.try_lock(K)", scoped: "scoped_lock", scoped_try: "scoped_try_lock", read: Some(("c.read(K)", "c.try_read(K)", "scoped_read", "scoped_try_read")), unlock: "LockCollection::<(RwLock<i32>, RwLock<i32>)>::unlock(g)", place: "*g.0", touch: "*d.0 += 1" },
		Recv { name: "Ref<array>", setup: "\tlet data = [RwLock::new(1), RwLock::new(2)];\n\tlet c = RefLockCollection::new(&data);\n", lock: "c.lock(K)", try_lock: "c.try_lock(K)", scoped: "scoped_lock", scoped_try: "scoped_try_lock", read: Some(("c.read(K)", "c.try_read(K)", "scoped_read", "scoped_try_read")), unlock: "RefLockCollection::<[RwLock<i32>; 2]>::unlock(g)", place: "*g[0]", touch: "*d[0] += 1" },
		Recv { name: "Owned<Vec>", setup: "\tlet c = OwnedLockCollection::new(vec![RwLock::new(1), RwLock::new(2)]);\n", lock: "c.lock(K)", try_lock: "c.try_lock(K)", scoped: "scoped_lock", scoped_try: "scoped_try_lock", read: Some(("c.read(K)", "c.try_read(K)", "scoped_read", "scoped_try_read")), unlock: "OwnedLockCollection::<Vec<RwLock<i32>>>::unlock(g)", place: "*g[0]", touch: "*d[0] += 1" },
		Recv { name: "Retrying<boxed slice>", setup: "\tlet c = RetryingLockCollection::new(vec![RwLock::new(1), RwLock::new(2)].into_boxed_slice());\n", lock: "c.lock(K)", try_lock: "c.try_lock(K)", scoped: "scoped_lock", scoped_try: "scoped_try_lock", read: Some(("c.read(K)", "c.try_read(K)", "scoped_read", "scoped_try_read")), unlock: "RetryingLockCollection::<Box<[RwLock<i32>]>>::unlock(g)", place: "*g[0]", touch: "*d[0] += 1" },
		Recv { name: "Poisonable<RwLock>", setup: "\tlet c = Poisonable::new(RwLock::new(1));\n", lock: "c.lock(K).unwrap()", try_lock: "c.try_lock(K).unwrap()", scoped: "scoped_lock", scoped_try: "scoped_try_lock", read: Some(("c.read(K).unwrap()", "c.try_read(K).unwrap()", "scoped_read", "scoped_try_read")), unlock: "Poisonable::<RwLock<i32>>::unlock(g)", place: "*g", touch: "*d.unwrap() += 1" },
		Recv { name: "Poisonable<Mutex>", setup: "\tlet c = Poisonable::new(Mutex::new(1));\n", lock: "c.lock(K).unwrap()", try_lock: "c.try_lock(K).unwrap()", scoped: "scoped_lock", scoped_try: "scoped_try_lock", read: None, unlock: "Poisonable::<Mutex<i32>>::unlock(g)", place: "*g", touch: "*d.unwrap() += 1" },
	]
}

pub fn entries() -> Vec<Entry> {
	let mut v: Vec<Entry> = vec![];
	let key = "\tlet mut key = ThreadKey::get().unwrap();\n";
	let keyo = "\tlet key = ThreadKey::get().unwrap();\n";

	// ---------------- C14: the key itself ----------------
	v.push(e("C14", "send-key", "ThreadKey", keyo, "\tstd::thread::scope(|s| { s.spawn(move || drop(key)); });", "\tstd::thread::scope(|s| { s.spawn(move || ()); });", "", &["E0277"]));
	v.push(e("C14", "send-key", "ThreadKey(bound)", "", "\tneed_send_t::<ThreadKey>();", "\tneed_sync_t::<ThreadKey>();", "", &["E0277"]));
	v.push(e("C14", "send-mut-ref-key", "&mut ThreadKey", key, "\tstd::thread::scope(|s| { let k = &mut key; s.spawn(move || { let m = Mutex::new(1); m.scoped_lock(k, |d| *d += 1) }); });", "\tstd::thread::scope(|s| { let k = &mut key; s.spawn(move || { let m = Mutex::new(1); m.scoped_lock(ThreadKey::get().unwrap(), |d| *d += 1) }); });", "", &["E0277"]));
	v.push(e("C14", "clone-key", "ThreadKey", keyo, "\tlet k2 = key.clone();", "\tlet k2 = key;", "", &["E0599"]));
	v.push(e("C14", "copy-key", "ThreadKey", keyo, "\tlet (a, b) = (key, key);", "\tlet (a, b) = (key, 0);", "", &["E0382"]));
	v.push(e("C14", "forge-key-literal", "ThreadKey", "", "\tlet forged = ThreadKey { phantom: std::marker::PhantomData };", "\tlet forged = ThreadKey::get();", "", &["E0451"]));
	v.push(e("C14", "forge-key-default", "ThreadKey", "", "\tlet forged: ThreadKey = Default::default();", "\tlet forged: Option<ThreadKey> = Default::default();", "", &["E0277"]));
	{
		let mut en = e("C14", "forge-keyable-impl", "Keyable", "", "\tlet m = Mutex::new(1); m.scoped_lock(MyKey, |d| *d += 1);", "\tlet m = Mutex::new(1); m.scoped_lock(ThreadKey::get().unwrap(), |d| *d += 1);", "", &["E0277"]);
		en.items = "struct MyKey;\n".into();
		v.push(en);
		let mut en = e("C14", "forge-keyable-unsafe-impl", "Keyable", "", "\tlet _ = 1;", "\tlet _ = 1;", "", &["E0277", "E0603"]);
		// the offending line is an item: put it in `bad`/`good` position through items instead
		en.items = String::new();
		en.pre = String::new();
		en.bad = "\tstruct MyKey; unsafe impl Keyable for MyKey {}".into();
		en.good = "\tstruct MyKey;".into();
		v.push(en);
	}
	{
		// a user type that merely *claims* (through a safe std trait) to contain a key must not be usable as one
		let forged = FORGED_ITEMS;
		for (recv, bad, good) in [
			("Mutex::scoped_lock(Forged)", "\tlet m = Mutex::new(1); m.scoped_lock(Forged, |d| *d += 1);", "\tlet m = Mutex::new(1); m.scoped_lock(ThreadKey::get().unwrap(), |d| *d += 1);"),
			("Mutex::scoped_lock(&mut Forged)", "\tlet m = Mutex::new(1); let mut f = Forged; m.scoped_lock(&mut f, |d| *d += 1);", "\tlet m = Mutex::new(1); let mut f = ThreadKey::get().unwrap(); m.scoped_lock(&mut f, |d| *d += 1);"),
			("RwLock::scoped_read(Forged)", "\tlet m = RwLock::new(1); m.scoped_read(Forged, |d| use_ref(d));", "\tlet m = RwLock::new(1); m.scoped_read(ThreadKey::get().unwrap(), |d| use_ref(d));"),
			("LockCollection::scoped_lock(Forged)", "\tlet c = LockCollection::new([Mutex::new(1)]); c.scoped_lock(Forged, |d| use_ref(&d));", "\tlet c = LockCollection::new([Mutex::new(1)]); c.scoped_lock(ThreadKey::get().unwrap(), |d| use_ref(&d));"),
			("Retrying::scoped_try_lock(Forged)", "\tlet c = RetryingLockCollection::new([Mutex::new(1)]); let _ = c.scoped_try_lock(Forged, |d| use_ref(&d));", "\tlet c = RetryingLockCollection::new([Mutex::new(1)]); let _ = c.scoped_try_lock(ThreadKey::get().unwrap(), |d| use_ref(&d));"),
			("Poisonable::scoped_lock(Forged)", "\tlet c = Poisonable::new(Mutex::new(1)); c.scoped_lock(Forged, |d| use_ref(&d));", "\tlet c = Poisonable::new(Mutex::new(1)); c.scoped_lock(ThreadKey::get().unwrap(), |d| use_ref(&d));"),
			("Mutex::scoped_lock(Box<ThreadKey>)", "\tlet m = Mutex::new(1); m.scoped_lock(Box::new(ThreadKey::get().unwrap()), |d| *d += 1);", "\tlet m = Mutex::new(1); m.scoped_lock(*Box::new(ThreadKey::get().unwrap()), |d| *d += 1);"),
			("Mutex::scoped_lock(Option<ThreadKey>)", "\tlet m = Mutex::new(1); m.scoped_lock(ThreadKey::get(), |d| *d += 1);", "\tlet m = Mutex::new(1); m.scoped_lock(ThreadKey::get().unwrap(), |d| *d += 1);"),
			("Mutex::lock(Forged.into())", "\tlet m = Mutex::new(1); let g = m.lock(Forged);", "\tlet m = Mutex::new(1); let g = m.lock(ThreadKey::get().unwrap());"),
		] {
			let mut en = e("C14", "forge-key-through-safe-conversion-trait", recv, "", bad, good, "", &["E0277", "E0308"]);
			en.items = forged.to_string();
			v.push(en);
		}
	}
	v.push(e("C14", "key-of-other-type-as-key", "&ThreadKey", keyo, "\tlet m = Mutex::new(1); m.scoped_lock(&key, |d| *d += 1);", "\tlet m = Mutex::new(1); m.scoped_lock(key, |d| *d += 1);", "", &["E0277"]));

	for (recv, bad, good) in [
		("RwLock<ThreadKey>: Sync", "\tneed_sync_t::<RwLock<ThreadKey>>();", "\tneed_sync_t::<RwLock<i32>>();"),
		("Mutex<ThreadKey>: Sync", "\tneed_sync_t::<Mutex<ThreadKey>>();", "\tneed_sync_t::<Mutex<i32>>();"),
		("RwLock<ThreadKey>: Send", "\tneed_send_t::<RwLock<ThreadKey>>();", "\tneed_send_t::<RwLock<i32>>();"),
		("Mutex<ThreadKey>: Send", "\tneed_send_t::<Mutex<ThreadKey>>();", "\tneed_send_t::<Mutex<i32>>();"),
		("LockCollection<RwLock<ThreadKey>>: Sync", "\tneed_sync_t::<LockCollection<RwLock<ThreadKey>>>();", "\tneed_sync_t::<LockCollection<RwLock<i32>>>();"),
		("OwnedLockCollection<(Mutex<ThreadKey>,)>: Send", "\tneed_send_t::<OwnedLockCollection<(Mutex<ThreadKey>,)>>();", "\tneed_send_t::<OwnedLockCollection<(Mutex<i32>,)>>();"),
		("Poisonable<RwLock<ThreadKey>>: Sync", "\tneed_sync_t::<Poisonable<RwLock<ThreadKey>>>();", "\tneed_sync_t::<Poisonable<RwLock<i32>>>();"),
	] {
		v.push(e("C14", "share-key-parked-in-a-lock", recv, "", bad, good, "", &["E0277"]));
	}
	// a key parked as the DATA of any lock inside any container: the container must be neither Send nor Sync
	for k in ["ThreadKey", "Option<ThreadKey>"] {
		for ty in [
			"OwnedLockCollection<(Mutex<@K>, RwLock<i32>)>",
			"OwnedLockCollection<Vec<Mutex<@K>>>",
			"BoxedLockCollection<Mutex<@K>>",
			"BoxedLockCollection<[Mutex<@K>; 2]>",
			"BoxedLockCollection<Vec<RwLock<@K>>>",
			"BoxedLockCollection<(Mutex<i32>, RwLock<@K>)>",
			"RetryingLockCollection<Vec<Mutex<@K>>>",
			"RetryingLockCollection<Box<[RwLock<@K>]>>",
			"RefLockCollection<'static, [Mutex<@K>; 2]>",
			"BoxedLockCollection<&'static RwLock<@K>>",
			"RetryingLockCollection<&'static Mutex<@K>>",
			"Poisonable<Mutex<@K>>",
			"Poisonable<BoxedLockCollection<Mutex<@K>>>",
			"BoxedLockCollection<Poisonable<RwLock<@K>>>",
		] {
			for (bound, f) in [("Send", "need_send_t"), ("Sync", "need_sync_t")] {
				v.push(e("C14", "share-key-parked-in-a-lock", &format!("{}: {}", ty.replace("@K", k).replace("'static, ", "").replace("&'static ", "&"), bound), "", &format!("\t{}::<{}>();", f, ty.replace("@K", k)), &format!("\t{}::<{}>();", f, ty.replace("@K", "i32")), "", &["E0277"]));
			}
		}
	}
	v.push(e(
		"C14",
		"share-key-parked-in-a-lock",
		"scoped thread write-locks RwLock<ThreadKey>",
		&format!("{}\tlet parked = RwLock::new(key);\n", keyo),
		"\tstd::thread::scope(|s| { s.spawn(|| { let k = ThreadKey::get().unwrap(); let mut g = parked.write(k); let other: &mut ThreadKey = &mut *g; let m = Mutex::new(0); m.scoped_lock(other, |d| *d += 1); }); });",
		"\tstd::thread::scope(|s| { s.spawn(|| { let k = ThreadKey::get().unwrap(); let m = Mutex::new(0); m.scoped_lock(k, |d| *d += 1); }); }); let mut g = parked.write(ThreadKey::get().unwrap_or_else(|| unreachable!()));",
		"",
		&["E0277"],
	));
	for r in receivers() {
		let setup = format!("{}{}", key, r.setup);
		let setupo = format!("{}{}", keyo, r.setup);
		let lk = |k: &str| r.lock.replace("K", k);
		let tlk = |k: &str| r.try_lock.replace("K", k);
		// guard APIs must take the key by value
		v.push(e("C14", "guard-api-borrowed-key", &format!("{}::lock", r.name), &setup, &format!("\tlet g = {};", lk("&mut key")), &format!("\tlet g = {};", lk("key")), "", &["E0308"]));
		v.push(e("C14", "guard-api-borrowed-key", &format!("{}::try_lock", r.name), &setup, &format!("\tlet g = {};", tlk("&mut key")), &format!("\tlet g = {};", tlk("key")), "", &["E0308"]));
		// the key is gone while the guard lives
		v.push(e("C14", "reuse-key-while-guard-alive", &format!("{}::lock", r.name), &format!("{}\tlet other = Mutex::new(0);\n\tlet g = {};\n", setupo, lk("key")), "\tlet g2 = other.lock(key);", "\tlet g2 = other.lock(ThreadKey::get().unwrap_or_else(|| unreachable!()));", "", &["E0382"]));
		v.push(e("C14", "reuse-key-after-failed-try-consumed", &format!("{}::try_lock", r.name), &format!("{}\tlet other = Mutex::new(0);\n\tlet g = {};\n", setupo, tlk("key")), "\tlet g2 = other.try_lock(key);", "\tlet g2 = other.try_lock(ThreadKey::get().unwrap_or_else(|| unreachable!()));", "", &["E0382"]));
		// scoped with owned key: the key is consumed
		v.push(e("C14", "reuse-key-after-scoped-owned", &format!("{}::{}", r.name, r.scoped), &format!("{}\tc.{}(key, |d| {{ {}; }});\n", setupo, r.scoped, r.touch), "\tlet k2 = key;", "\tlet k2 = ThreadKey::get();", "", &["E0382"]));
		// nested acquisition with the lent key inside the closure
		let mut en = e(
			"C14",
			"nested-scoped-with-lent-key",
			&format!("{}::{}", r.name, r.scoped),
			&format!("{}\tlet other = Mutex::new(0);\n", setup),
			&format!("\tc.{}(&mut key, |d| {{ other.scoped_lock(&mut key, |o| *o += 1); }});", r.scoped),
			&format!("\tc.{}(&mut key, |d| {{ {}; }}); other.scoped_lock(&mut key, |o| *o += 1);", r.scoped, r.touch),
			"",
			&["E0499", "E0500", "E0501", "E0502", "E0524", "E0525"],
		);
		en.span_slack = 0;
		v.push(en);
		v.push(e(
			"C14",
			"nested-scoped-try-with-lent-key",
			&format!("{}::{}", r.name, r.scoped_try),
			&format!("{}\tlet other = Mutex::new(0);\n", setup),
			&format!("\tlet _ = c.{}(&mut key, |d| {{ other.scoped_lock(&mut key, |o| *o += 1); }});", r.scoped_try),
			&format!("\tlet _ = c.{}(&mut key, |d| {{ {}; }}); other.scoped_lock(&mut key, |o| *o += 1);", r.scoped_try, r.touch),
			"",
			&["E0499", "E0500", "E0501", "E0502", "E0524", "E0525"],
		));
		// a fresh key obtained inside the closure cannot exist at run time, but moving the *owned* key in twice is a compile error
		v.push(e(
			"C14",
			"owned-key-used-in-own-closure",
			&format!("{}::{}", r.name, r.scoped),
			&format!("{}\tlet other = Mutex::new(0);\n", setupo),
			&format!("\tc.{}(key, |d| {{ other.scoped_lock(key, |o| *o += 1); }});", r.scoped),
			&format!("\tc.{}(key, |d| {{ {}; }});", r.scoped, r.touch),
			"",
			&["E0382", "E0505", "E0507", "E0525"],
		));
		// a client type that only claims, through safe std conversion traits, to contain a key: every acquiring API
		{
			let mut add = |what: String, bad: String, good: String| {
				let mut en = e("C14", "forge-key-through-safe-conversion-trait", &what, &setup, &bad, &good, "", &["E0277", "E0308"]);
				en.items = FORGED_ITEMS.to_string();
				v.push(en);
			};
			add(format!("{}::lock(Forged)", r.name), format!("\tlet g = {};", lk("Forged")), format!("\tlet g = {};", lk("key")));
			add(format!("{}::try_lock(Forged)", r.name), format!("\tlet g = {};", tlk("Forged")), format!("\tlet g = {};", tlk("key")));
			add(format!("{}::{}(Forged)", r.name, r.scoped), format!("\tc.{}(Forged, |d| {{ {}; }});", r.scoped, r.touch), format!("\tc.{}(&mut key, |d| {{ {}; }});", r.scoped, r.touch));
			add(format!("{}::{}(Forged)", r.name, r.scoped_try), format!("\tlet _ = c.{}(Forged, |d| {{ {}; }});", r.scoped_try, r.touch), format!("\tlet _ = c.{}(&mut key, |d| {{ {}; }});", r.scoped_try, r.touch));
			if let Some((read, try_read, sread, stread)) = r.read {
				add(format!("{}::read(Forged)", r.name), format!("\tlet g = {};", read.replace("K", "Forged")), format!("\tlet g = {};", read.replace("K", "key")));
				add(format!("{}::try_read(Forged)", r.name), format!("\tlet g = {};", try_read.replace("K", "Forged")), format!("\tlet g = {};", try_read.replace("K", "key")));
				add(format!("{}::{}(Forged)", r.name, sread), format!("\tc.{}(Forged, |d| {{ use_ref(&d); }});", sread), format!("\tc.{}(&mut key, |d| {{ use_ref(&d); }});", sread));
				add(format!("{}::{}(Forged)", r.name, stread), format!("\tlet _ = c.{}(Forged, |d| {{ use_ref(&d); }});", stread), format!("\tlet _ = c.{}(&mut key, |d| {{ use_ref(&d); }});", stread));
			}
		}
		// nothing but the thread's key (owned or exclusively borrowed) is accepted as a key, by any acquiring API
		for (fake, label) in [("()", "unit"), ("&key", "shared-borrow")] {
			v.push(e("C14", "non-key-as-key", &format!("{}::lock({})", r.name, label), &setup, &format!("	let g = {};", lk(fake)), &format!("	let g = {};", lk("key")), "", &["E0277", "E0308"]));
			v.push(e("C14", "non-key-as-key", &format!("{}::try_lock({})", r.name, label), &setup, &format!("	let g = {};", tlk(fake)), &format!("	let g = {};", tlk("key")), "", &["E0277", "E0308"]));
			v.push(e("C14", "non-key-as-key", &format!("{}::{}({})", r.name, r.scoped, label), &setup, &format!("	c.{}({}, |d| {{ {}; }});", r.scoped, fake, r.touch), &format!("	c.{}(&mut key, |d| {{ {}; }});", r.scoped, r.touch), "", &["E0277", "E0308"]));
			v.push(e("C14", "non-key-as-key", &format!("{}::{}({})", r.name, r.scoped_try, label), &setup, &format!("	let _ = c.{}({}, |d| {{ {}; }});", r.scoped_try, fake, r.touch), &format!("	let _ = c.{}(&mut key, |d| {{ {}; }});", r.scoped_try, r.touch), "", &["E0277", "E0308"]));
			if let Some((read, try_read, sread, stread)) = r.read {
				v.push(e("C14", "non-key-as-key", &format!("{}::read({})", r.name, label), &setup, &format!("	let g = {};", read.replace("K", fake)), &format!("	let g = {};", read.replace("K", "key")), "", &["E0277", "E0308"]));
				v.push(e("C14", "non-key-as-key", &format!("{}::try_read({})", r.name, label), &setup, &format!("	let g = {};", try_read.replace("K", fake)), &format!("	let g = {};", try_read.replace("K", "key")), "", &["E0277", "E0308"]));
				v.push(e("C14", "non-key-as-key", &format!("{}::{}({})", r.name, sread, label), &setup, &format!("	c.{}({}, |d| {{ use_ref(&d); }});", sread, fake), &format!("	c.{}(&mut key, |d| {{ use_ref(&d); }});", sread), "", &["E0277", "E0308"]));
				v.push(e("C14", "non-key-as-key", &format!("{}::{}({})", r.name, stread, label), &setup, &format!("	let _ = c.{}({}, |d| {{ use_ref(&d); }});", stread, fake), &format!("	let _ = c.{}(&mut key, |d| {{ use_ref(&d); }});", stread), "", &["E0277", "E0308"]));
			}
		}
		// guards carry the key: they must not cross threads, be cloned, or expose the key
		v.push(e("C14", "send-guard", &format!("{} guard", r.name), &format!("{}\tlet g = {};\n", setupo, lk("key")), "\tstd::thread::scope(|s| { s.spawn(move || drop(g)); });", "\tstd::thread::scope(|s| { s.spawn(move || ()); }); drop(g);", "", &["E0277"]));
		v.push(e("C14", "clone-guard", &format!("{} guard", r.name), &format!("{}\tlet g = {};\n", setupo, lk("key")), "\tneed_clone(&g);", "\tuse_ref(&g);", "", &["E0277"]));
		if let Some((read, try_read, sread, stread)) = r.read {
			v.push(e("C14", "guard-api-borrowed-key", &format!("{}::read", r.name), &setup, &format!("\tlet g = {};", read.replace("K", "&mut key")), &format!("\tlet g = {};", read.replace("K", "key")), "", &["E0308"]));
			v.push(e("C14", "guard-api-borrowed-key", &format!("{}::try_read", r.name), &setup, &format!("\tlet g = {};", try_read.replace("K", "&mut key")), &format!("\tlet g = {};", try_read.replace("K", "key")), "", &["E0308"]));
			v.push(e("C14", "send-guard", &format!("{} read guard", r.name), &format!("{}\tlet g = {};\n", setupo, read.replace("K", "key")), "\tstd::thread::scope(|s| { s.spawn(move || drop(g)); });", "\tstd::thread::scope(|s| { s.spawn(move || ()); }); drop(g);", "", &["E0277"]));
			v.push(e(
				"C14",
				"nested-scoped-with-lent-key",
				&format!("{}::{}", r.name, sread),
				&format!("{}\tlet other = Mutex::new(0);\n", setup),
				&format!("\tc.{}(&mut key, |d| {{ other.scoped_lock(&mut key, |o| *o += 1); }});", sread),
				&format!("\tc.{}(&mut key, |d| {{ use_ref(&d); }}); other.scoped_lock(&mut key, |o| *o += 1);", sread),
				"",
				&["E0499", "E0500", "E0501", "E0502", "E0524", "E0525"],
			));
			v.push(e(
				"C14",
				"nested-scoped-try-with-lent-key",
				&format!("{}::{}", r.name, stread),
				&format!("{}\tlet other = Mutex::new(0);\n", setup),
				&format!("\tlet _ = c.{}(&mut key, |d| {{ other.scoped_lock(&mut key, |o| *o += 1); }});", stread),
				&format!("\tlet _ = c.{}(&mut key, |d| {{ use_ref(&d); }}); other.scoped_lock(&mut key, |o| *o += 1);", stread),
				"",
				&["E0499", "E0500", "E0501", "E0502", "E0524", "E0525"],
			));
			// C15: a shared hold never yields mutable access (readers would race)
			v.push(e("C15", "mutate-through-shared-hold", &format!("{} read guard", r.name), &format!("{}\tlet mut g = {};\n", setupo, read.replace("K", "key")), &format!("\t{} += 1;", r.place), &format!("\tuse_ref(&{});", r.place), "", &["E0594", "E0596"]));
			v.push(e("C15", "mutate-through-shared-hold", &format!("{}::{}", r.name, sread), &setup, &format!("\tc.{}(&mut key, |d| {{ {}; }});", sread, r.touch), &format!("\tc.{}(&mut key, |d| {{ use_ref(&d); }});", sread), "", &["E0594", "E0596"]));
			v.push(e("C15", "mutate-through-shared-hold", &format!("{}::{}", r.name, stread), &setup, &format!("\tlet _ = c.{}(&mut key, |d| {{ {}; }});", stread, r.touch), &format!("\tlet _ = c.{}(&mut key, |d| {{ use_ref(&d); }});", stread), "", &["E0594", "E0596"]));
			// C15: a reference leaving a shared scoped closure
			v.push(e("C15", "ref-escapes-scoped-closure", &format!("{}::{}", r.name, stread), &setup, &format!("\tlet r = c.{}(&mut key, |d| d);", stread), &format!("\tlet r = c.{}(&mut key, |d| {{ use_ref(&d); }});", stread), "\tuse_ref(&r);\n", &["E0521", "E0597", "E0515", "E0716", "E0505", "E0499", "E0502", "E0506", "E0310", "E0495", "E0308", "E0700", "E0373", "E0623", "E0312", "E0759", "E0282", "E????"]));
			v.push(e("C15", "ref-escapes-scoped-closure", &format!("{}::{}", r.name, sread), &setup, &format!("\tlet r = c.{}(&mut key, |d| d);", sread), &format!("\tlet r = c.{}(&mut key, |d| {{ use_ref(&d); }});", sread), "\tuse_ref(&r);\n", &["E0521", "E0597", "E0515", "E0716", "E0505", "E0499", "E0502", "E0506", "E0310", "E0495", "E0308", "E0700", "E0373", "E0623", "E0312", "E0759", "E0282", "E????"]));
		}
		// private fields
		// C15: references cannot outlive the hold
		v.push(e("C15", "ref-escapes-guard", &format!("{} guard", r.name), &format!("{}\tlet r: &i32;\n\t{{\n\t\tlet g = {};\n", setupo, lk("key")), &format!("\t\tr = &{};", r.place), &format!("\t\tr = &0; use_ref(&{});", r.place), "\t}\n\tuse_ref(r);\n", &["E0597", "E0505", "E0716"]));
		v.push(e("C15", "ref-escapes-scoped-closure", &format!("{}::{}", r.name, r.scoped), &setup, &format!("\tlet r = c.{}(&mut key, |d| d);", r.scoped), &format!("\tlet r = c.{}(&mut key, |d| {{ {}; }});", r.scoped, r.touch), "\tuse_ref(&r);\n", &["E0521", "E0597", "E0515", "E0716", "E0505", "E0499", "E0502", "E0506", "E0310", "E0495", "E0308", "E0700", "E0373", "E0623", "E0312", "E0759", "E0282", "E????"]));
		v.push(e("C15", "ref-escapes-scoped-closure", &format!("{}::{}", r.name, r.scoped_try), &setup, &format!("\tlet r = c.{}(&mut key, |d| d);", r.scoped_try), &format!("\tlet r = c.{}(&mut key, |d| {{ {}; }});", r.scoped_try, r.touch), "\tuse_ref(&r);\n", &["E0521", "E0597", "E0515", "E0716", "E0505", "E0499", "E0502", "E0506", "E0310", "E0495", "E0308", "E0700", "E0373", "E0623", "E0312", "E0759", "E0282", "E????"]));
	}
	// constructors without a duplicate check accept owned locks only, through every route (Default, From, FromIterator, Extend)
	for (what, bad, good) in [
		("Owned::default over Vec<&Mutex>", "\tlet c: OwnedLockCollection<Vec<&Mutex<i32>>> = Default::default();", "\tlet c: OwnedLockCollection<Vec<Mutex<i32>>> = Default::default();"),
		("Boxed::default over Vec<&Mutex>", "\tlet c: LockCollection<Vec<&Mutex<i32>>> = Default::default();", "\tlet c: LockCollection<Vec<Mutex<i32>>> = Default::default();"),
		("Retrying::default over Vec<&Mutex>", "\tlet c: RetryingLockCollection<Vec<&Mutex<i32>>> = Default::default();", "\tlet c: RetryingLockCollection<Vec<Mutex<i32>>> = Default::default();"),
		("Owned::from(vec![&m, &m])", "\tlet m = Mutex::new(1); let c = OwnedLockCollection::from(vec![&m, &m]);", "\tlet m = Mutex::new(1); let c = OwnedLockCollection::from(vec![Mutex::new(1)]); use_ref(&m);"),
		("Boxed::from(vec![&m, &m])", "\tlet m = Mutex::new(1); let c = LockCollection::from(vec![&m, &m]);", "\tlet m = Mutex::new(1); let c = LockCollection::from(vec![Mutex::new(1)]); use_ref(&m);"),
		("Retrying::from(vec![&m, &m])", "\tlet m = Mutex::new(1); let c = RetryingLockCollection::from(vec![&m, &m]);", "\tlet m = Mutex::new(1); let c = RetryingLockCollection::from(vec![Mutex::new(1)]); use_ref(&m);"),
		("Owned: FromIterator<&Mutex>", "\tlet m = Mutex::new(1); let c: OwnedLockCollection<Vec<&Mutex<i32>>> = [&m, &m].into_iter().collect();", "\tlet m = Mutex::new(1); let c: OwnedLockCollection<Vec<Mutex<i32>>> = [Mutex::new(1)].into_iter().collect(); use_ref(&m);"),
		("Boxed: FromIterator<&Mutex>", "\tlet m = Mutex::new(1); let c: LockCollection<Vec<&Mutex<i32>>> = [&m, &m].into_iter().collect();", "\tlet m = Mutex::new(1); let c: LockCollection<Vec<Mutex<i32>>> = [Mutex::new(1)].into_iter().collect(); use_ref(&m);"),
		("Retrying: FromIterator<&Mutex>", "\tlet m = Mutex::new(1); let c: RetryingLockCollection<Vec<&Mutex<i32>>> = [&m, &m].into_iter().collect();", "\tlet m = Mutex::new(1); let c: RetryingLockCollection<Vec<Mutex<i32>>> = [Mutex::new(1)].into_iter().collect(); use_ref(&m);"),
		("Ref::from(&vec![&m, &m])", "\tlet m = Mutex::new(1); let d = vec![&m, &m]; let c = RefLockCollection::from(&d);", "\tlet m = Mutex::new(1); let d = vec![Mutex::new(1)]; let c = RefLockCollection::from(&d); use_ref(&m);"),
	] {
		v.push(e("C15", "new-with-reference-input", what, "", bad, good, "", &["E0277", "E0599", "E0308"]));
	}
	// guard outliving its lock
	v.push(e("C15", "guard-outlives-lock", "Mutex", &format!("{}\tlet g;\n\t{{\n\t\tlet m = Mutex::new(1);\n", keyo), "\t\tg = m.lock(key);", "\t\tg = 0; drop(m.lock(key));", "\t}\n\tdrop(g);\n", &["E0597"]));
	v.push(e("C15", "guard-outlives-lock", "RwLock", &format!("{}\tlet g;\n\t{{\n\t\tlet m = RwLock::new(1);\n", keyo), "\t\tg = m.read(key);", "\t\tg = 0; drop(m.read(key));", "\t}\n\tdrop(g);\n", &["E0597"]));
	v.push(e("C15", "guard-outlives-lock", "Boxed", &format!("{}\tlet g;\n\t{{\n\t\tlet c = LockCollection::new([Mutex::new(1)]);\n", keyo), "\t\tg = c.lock(key);", "\t\tg = 0; drop(c.lock(key));", "\t}\n\tdrop(g);\n", &["E0597"]));
	v.push(e("C15", "guard-outlives-lock", "Ref(data)", &format!("{}\tlet g;\n\tlet data = [Mutex::new(1)];\n\t{{\n\t\tlet c = RefLockCollection::new(&data);\n", keyo), "\t\tg = c.lock(key);", "\t\tg = 0; drop(c.lock(key));", "\t}\n\tdrop(g);\n", &["E0597"]));
	v.push(e("C15", "collection-outlives-locks", "Ref", "\tlet c;\n\t{\n\t\tlet data = [Mutex::new(1)];\n", "\t\tc = RefLockCollection::new(&data);", "\t\tc = 0; let _ = RefLockCollection::new(&data);", "\t}\n\tdrop(c);\n", &["E0597"]));
	v.push(e("C15", "collection-outlives-locks", "Boxed::try_new(refs)", "\tlet c;\n\t{\n\t\tlet m = Mutex::new(1);\n", "\t\tc = LockCollection::try_new([&m]);", "\t\tc = 0; let _ = LockCollection::try_new([&m]);", "\t}\n\tdrop(c);\n", &["E0597"]));
	v.push(e("C15", "mutate-lock-while-collection-borrows", "Ref", "\tlet mut data = [Mutex::new(1)];\n\tlet c = RefLockCollection::new(&data);\n", "\t*data[0].get_mut() = 2;", "\tlet _ = 2;", "\tdrop(c);\n", &["E0502", "E0506"]));

	// private fields of keys, guards, locks, collections
	v.push(e("C14", "private-field", "MutexGuard.thread_key", &format!("{}\tlet m = Mutex::new(1);\n\tlet g = m.lock(key);\n", keyo), "\tlet k = g.thread_key;", "\tlet k = Mutex::unlock(g);", "", &["E0616"]));
	v.push(e("C14", "private-field", "LockGuard.key", &format!("{}\tlet c = LockCollection::new([Mutex::new(1)]);\n\tlet g = c.lock(key);\n", keyo), "\tlet k = g.key;", "\tlet k = LockCollection::<[Mutex<i32>; 1]>::unlock(g);", "", &["E0616"]));
	v.push(e("C14", "private-field", "PoisonGuard.key", &format!("{}\tlet c = Poisonable::new(Mutex::new(1));\n\tlet g = c.lock(key).unwrap();\n", keyo), "\tlet k = g.key;", "\tlet k = Poisonable::<Mutex<i32>>::unlock(g);", "", &["E0616"]));
	v.push(e("C14", "private-field", "RwLockWriteGuard.thread_key", &format!("{}\tlet m = RwLock::new(1);\n\tlet g = m.write(key);\n", keyo), "\tlet k = g.thread_key;", "\tlet k = RwLock::unlock_write(g);", "", &["E0616"]));
	v.push(e("C15", "private-field", "Mutex.data", "\tlet m = Mutex::new(1);\n", "\tlet d = &m.data;", "\tlet d = &m;", "", &["E0616"]));
	v.push(e("C15", "private-field", "RwLock.data", "\tlet m = RwLock::new(1);\n", "\tlet d = &m.data;", "\tlet d = &m;", "", &["E0616"]));
	v.push(e("C15", "private-field", "Owned.data", "\tlet c = OwnedLockCollection::new([Mutex::new(1)]);\n", "\tlet d = &c.data;", "\tlet d = &c;", "", &["E0616"]));
	v.push(e("C15", "private-field", "Poisonable.inner", "\tlet c = Poisonable::new(Mutex::new(1));\n", "\tlet d = &c.inner;", "\tlet d = &c;", "", &["E0616"]));
	v.push(e("C15", "private-field", "MutexRef.0", &format!("{}\tlet c = LockCollection::new([Mutex::new(1)]);\n\tlet g = c.lock(key);\n", keyo), "\tlet d = g[0].0;", "\tlet d = *g[0];", "", &["E0616"]));

	// moving holds out of a collection guard and then taking the key back (C14)
	for (name, setup, ty) in [
		("Boxed<Vec>", "\tlet c = LockCollection::new(vec![Mutex::new(1), Mutex::new(2)]);\n", "LockCollection::<Vec<Mutex<i32>>>"),
		("Boxed<boxed slice>", "\tlet c = LockCollection::new(vec![Mutex::new(1), Mutex::new(2)].into_boxed_slice());\n", "LockCollection::<Box<[Mutex<i32>]>>"),
		("Owned<Vec>", "\tlet c = OwnedLockCollection::new(vec![Mutex::new(1), Mutex::new(2)]);\n", "OwnedLockCollection::<Vec<Mutex<i32>>>"),
		("Retrying<Vec>", "\tlet c = RetryingLockCollection::new(vec![Mutex::new(1), Mutex::new(2)]);\n", "RetryingLockCollection::<Vec<Mutex<i32>>>"),
	] {
		v.push(e("C14", "move-holds-out-of-guard(mem::take via DerefMut)", name, &format!("{}{}\tlet mut g = c.lock(key);\n", keyo, setup), "\tlet holds = std::mem::take(&mut *g);", "\tlet holds = g.len();", &format!("\tlet key = {}::unlock(g);\n\tuse_ref(&holds);\n", ty), &["E0277", "E0596", "E0599", "E0308"]));
		v.push(e("C14", "move-holds-out-of-guard(mem::take via AsMut)", name, &format!("{}{}\tlet mut g = c.lock(key);\n", keyo, setup), "\tlet holds = std::mem::take(g.as_mut());", "\tlet holds = g.as_mut().len();", &format!("\tlet key = {}::unlock(g);\n\tuse_ref(&holds);\n", ty), &["E0277", "E0596", "E0599", "E0308", "E0282", "E0283"]));
	}
	v.push(e("C14", "move-holds-out-of-guard(mem::take via DerefMut)", "Boxed<tuple>", &format!("{}\tlet c = LockCollection::new((Mutex::new(1), Mutex::new(2)));\n\tlet mut g = c.lock(key);\n", keyo), "\tlet holds = std::mem::take(&mut *g);", "\tlet holds = 0;", "\tuse_ref(&holds);\n", &["E0277"]));
	v.push(e("C14", "move-holds-out-of-guard(mem::take via DerefMut)", "Boxed<array>", &format!("{}\tlet c = LockCollection::new([Mutex::new(1), Mutex::new(2)]);\n\tlet mut g = c.lock(key);\n", keyo), "\tlet holds = std::mem::take(&mut *g);", "\tlet holds = 0;", "\tuse_ref(&holds);\n", &["E0277"]));
	v.push(e("C14", "move-holds-out-of-guard(move out of deref)", "Boxed<Vec>", &format!("{}\tlet c = LockCollection::new(vec![Mutex::new(1)]);\n\tlet mut g = c.lock(key);\n", keyo), "\tlet holds = *g;", "\tlet holds = g.len();", "\tuse_ref(&holds);\n", &["E0507"]));
	v.push(e("C14", "move-holds-out-of-guard(mem::take via PoisonGuard::as_mut)", "Poisonable<Boxed<Vec>>", &format!("{}\tlet c = Poisonable::new(LockCollection::new(vec![Mutex::new(1), Mutex::new(2)]));\n\tlet mut g = c.lock(key).unwrap();\n", keyo), "\tlet holds = std::mem::take(AsMut::<Box<[_]>>::as_mut(&mut g));", "\tlet holds = AsRef::<Box<[_]>>::as_ref(&g).len();", "\tlet key = Poisonable::<LockCollection<Vec<Mutex<i32>>>>::unlock(g);\n\tuse_ref(&holds);\n", &["E0277", "E0596", "E0599", "E0308", "E0282", "E0283"]));
	v.push(e("C14", "move-holds-out-of-guard(mem::take on MutexGuard)", "Mutex", &format!("{}\tlet c = Mutex::new(vec![1]);\n\tlet mut g = c.lock(key);\n", keyo), "\tlet r: happylock::mutex::MutexRef<'_, Vec<i32>, _> = std::mem::take(&mut g);", "\tlet r: Vec<i32> = std::mem::take(&mut *g);", "", &["E0308", "E0277"]));

	// ---------------- C15: owned collection never gives shared access to its members ----------------
	let ow = "\tlet c = OwnedLockCollection::new([Mutex::new(1), Mutex::new(2)]);\n";
	v.push(e("C15", "owned-shared-access", "Owned::child", ow, "\tlet inner = c.child();", "\tlet inner = &c;", "", &["E0599"]));
	v.push(e("C15", "owned-shared-access", "Owned::as_ref", ow, "\tlet inner: &[Mutex<i32>; 2] = c.as_ref();", "\tlet inner = &c;", "", &["E0599", "E0277"]));
	v.push(e("C15", "owned-shared-access", "Owned::as_ref (slice)", ow, "\tlet inner: &[Mutex<i32>] = c.as_ref();", "\tlet inner = &c;", "", &["E0599", "E0277"]));
	v.push(e("C15", "owned-shared-access", "Owned<Vec>::as_ref (slice)", "\tlet c = OwnedLockCollection::new(vec![Mutex::new(1), Mutex::new(2)]);\n", "\tlet inner: &[Mutex<i32>] = c.as_ref();", "\tlet inner = &c;", "", &["E0599", "E0277"]));
	v.push(e("C15", "owned-shared-access", "Owned<Vec>::as_ref (Vec)", "\tlet c = OwnedLockCollection::new(vec![Mutex::new(1), Mutex::new(2)]);\n", "\tlet inner: &Vec<Mutex<i32>> = c.as_ref();", "\tlet inner = &c;", "", &["E0599", "E0277"]));
	v.push(e("C15", "owned-shared-access", "Owned<Box<[]>>::as_ref (slice)", "\tlet c = OwnedLockCollection::new(vec![Mutex::new(1), Mutex::new(2)].into_boxed_slice());\n", "\tlet inner: &[Mutex<i32>] = c.as_ref();", "\tlet inner = &c;", "", &["E0599", "E0277"]));
	v.push(e("C15", "owned-shared-access", "Owned: Deref", ow, "\tlet inner: &[Mutex<i32>; 2] = &*c;", "\tlet inner = &c;", "", &["E0614", "E0308"]));
	v.push(e("C15", "owned-shared-access", "Owned::iter", ow, "\tfor m in c.iter() { use_ref(m); }", "\tfor m in c { use_ref(&m); }", "", &["E0599"]));
	v.push(e("C15", "owned-shared-access", "(&Owned).into_iter", ow, "\tfor m in &c { use_ref(m); }", "\tfor m in c { use_ref(&m); }", "", &["E0277"]));
	v.push(e("C15", "owned-shared-access", "Owned::deref", ow, "\tlet first = &c[0];", "\tlet first = &c;", "", &["E0608"]));
	v.push(e("C15", "owned-shared-access", "Poisonable::child", "\tlet c = Poisonable::new(Mutex::new(1));\n", "\tlet inner = c.child();", "\tlet inner = &c;", "", &["E0599"]));

	// ---------------- C15 / C07: unchecked-at-runtime constructors accept only owning inputs ----------------
	let two = "\tlet (m1, m2) = (Mutex::new(1), Mutex::new(2));\n";
	v.push(e("C15", "new-with-reference-input", "Boxed::new([&m,&m])", two, "\tlet c = LockCollection::new([&m1, &m1]);", "\tlet c = LockCollection::try_new([&m1, &m1]);", "", &["E0277"]));
	v.push(e("C15", "new-with-reference-input", "Boxed::new((&m,&m))", two, "\tlet c = LockCollection::new((&m1, &m2));", "\tlet c = LockCollection::try_new((&m1, &m2));", "", &["E0277"]));
	v.push(e("C15", "new-with-reference-input", "Boxed::new(vec![&m])", two, "\tlet c = LockCollection::new(vec![&m1]);", "\tlet c = LockCollection::try_new(vec![&m1]);", "", &["E0277"]));
	v.push(e("C15", "new-with-reference-input", "Boxed::new_ref(&[&m,&m])", two, "\tlet d = [&m1, &m1]; let c = LockCollection::new_ref(&d);", "\tlet d = [&m1, &m1]; let c = LockCollection::try_new(&d);", "", &["E0277"]));
	v.push(e("C15", "new-with-reference-input", "Ref::new(&[&m,&m])", two, "\tlet d = [&m1, &m1]; let c = RefLockCollection::new(&d);", "\tlet d = [&m1, &m1]; let c = RefLockCollection::try_new(&d);", "", &["E0277"]));
	v.push(e("C15", "new-with-reference-input", "Ref::from(&[&m,&m])", two, "\tlet d = [&m1, &m1]; let c = RefLockCollection::from(&d);", "\tlet d = [&m1, &m1]; let c = RefLockCollection::try_new(&d);", "", &["E0277"]));
	v.push(e("C15", "new-with-reference-input", "Retrying::new([&m,&m])", two, "\tlet c = RetryingLockCollection::new([&m1, &m1]);", "\tlet c = RetryingLockCollection::try_new([&m1, &m1]);", "", &["E0277"]));
	v.push(e("C15", "new-with-reference-input", "Retrying::new_ref(&[&m,&m])", two, "\tlet d = [&m1, &m1]; let c = RetryingLockCollection::new_ref(&d);", "\tlet d = [&m1, &m1]; let c = RetryingLockCollection::try_new(&d);", "", &["E0277"]));
	v.push(e("C15", "new-with-reference-input", "Owned::new([&m,&m])", two, "\tlet c = OwnedLockCollection::new([&m1, &m1]);", "\tlet c = OwnedLockCollection::new([Mutex::new(1)]);", "", &["E0277"]));
	v.push(e("C15", "new-with-reference-input", "Owned::from((&m,&m))", two, "\tlet c = OwnedLockCollection::from((&m1, &m2));", "\tlet c = OwnedLockCollection::from((Mutex::new(1), Mutex::new(2)));", "", &["E0277"]));
	v.push(e("C15", "new-with-reference-input", "Boxed::from([&m])", two, "\tlet c = LockCollection::from([&m1]);", "\tlet c = LockCollection::from([Mutex::new(1)]);", "", &["E0277"]));
	v.push(e("C15", "new-with-reference-input", "Boxed::from_iter(refs)", two, "\tlet c: LockCollection<Vec<&Mutex<i32>>> = [&m1, &m1].into_iter().collect();", "\tlet c: LockCollection<Vec<Mutex<i32>>> = [Mutex::new(1)].into_iter().collect();", "", &["E0277"]));
	v.push(e("C15", "new-with-reference-input", "Owned::extend(refs)", two, "\tlet mut c = OwnedLockCollection::new(vec![Mutex::new(0)]); c.extend([&m1]);", "\tlet mut c = OwnedLockCollection::new(vec![Mutex::new(0)]); c.extend([Mutex::new(1)]);", "", &["E0277", "E0271", "E0308"]));
	v.push(e("C15", "new-with-reference-input", "Boxed::new(&Boxed)", "\tlet inner = LockCollection::new([Mutex::new(1)]);\n", "\tlet c = LockCollection::new((&inner, &inner));", "\tlet c = LockCollection::try_new((&inner, &inner));", "", &["E0277"]));
	v.push(e("C15", "new-with-reference-input", "Boxed::new(Poisonable<&m>)", two, "\tlet c = LockCollection::new([Poisonable::new(&m1), Poisonable::new(&m1)]);", "\tlet c = LockCollection::try_new([Poisonable::new(&m1), Poisonable::new(&m1)]);", "", &["E0277"]));

	// ---------------- C15: unsafe-only entry points called from safe code ----------------
	let one = "\tlet m = Mutex::new(1);\n\tlet r = RwLock::new(1);\n";
	for (recv, bad, good) in [
		("Mutex::raw", "\tlet raw = m.raw();", "\tlet raw = unsafe { m.raw() };"),
		("Boxed::new_unchecked", "\tlet c = LockCollection::new_unchecked([&m, &m]);", "\tlet c = unsafe { LockCollection::new_unchecked([&m]) };"),
		("Ref::new_unchecked", "\tlet d = [&m, &m]; let c = RefLockCollection::new_unchecked(&d);", "\tlet d = [&m]; let c = unsafe { RefLockCollection::new_unchecked(&d) };"),
		("Retrying::new_unchecked", "\tlet c = RetryingLockCollection::new_unchecked([&m, &m]);", "\tlet c = unsafe { RetryingLockCollection::new_unchecked([&m]) };"),
		("RawLock::raw_write", "\tRawLock::raw_write(&m);", "\tunsafe { RawLock::raw_write(&m); RawLock::raw_unlock_write(&m); }"),
		("RawLock::raw_try_write", "\tlet ok = RawLock::raw_try_write(&m);", "\tlet ok = unsafe { RawLock::raw_try_write(&m) };"),
		("RawLock::raw_unlock_write", "\tRawLock::raw_unlock_write(&m);", "\tunsafe { RawLock::raw_write(&m); RawLock::raw_unlock_write(&m); }"),
		("RawLock::raw_read", "\tRawLock::raw_read(&r);", "\tunsafe { RawLock::raw_read(&r); RawLock::raw_unlock_read(&r); }"),
		("RawLock::raw_try_read", "\tlet ok = RawLock::raw_try_read(&r);", "\tlet ok = unsafe { RawLock::raw_try_read(&r) };"),
		("RawLock::raw_unlock_read", "\tRawLock::raw_unlock_read(&r);", "\tunsafe { RawLock::raw_read(&r); RawLock::raw_unlock_read(&r); }"),
		("Lockable::guard", "\tlet g = Lockable::guard(&m);", "\tlet g = unsafe { RawLock::raw_write(&m); Lockable::guard(&m) };"),
		("Lockable::data_mut", "\tlet d = Lockable::data_mut(&m);", "\tlet d = unsafe { RawLock::raw_write(&m); Lockable::data_mut(&m) };"),
		("Sharable::read_guard", "\tlet g = Sharable::read_guard(&r);", "\tlet g = unsafe { RawLock::raw_read(&r); Sharable::read_guard(&r) };"),
		("Sharable::data_ref", "\tlet d = Sharable::data_ref(&r);", "\tlet d = unsafe { RawLock::raw_read(&r); Sharable::data_ref(&r) };"),
	] {
		v.push(e("C15", "unsafe-entry-point-from-safe-code", recv, one, bad, good, "", &["E0133"]));
	}
	{
		let mut en = e("C15", "safe-impl-of-unsafe-trait", "Lockable", "", "\tlet _ = 1;", "\tlet _ = 1;", "", &["E0200"]);
		en.bad = "\tstruct W; impl OwnedLockable for W {}".into();
		en.good = "\tstruct W;".into();
		en.codes = vec!["E0200", "E0277"];
		v.push(en);
	}

	// ---------------- C15: Send / Sync table (bounds at least as strict as std's Mutex / RwLock) ----------------
	// (type expression, payload name, must be Send?, must be Sync?) -- "false" entries are the offending programs;
	// each twin asserts the same bound with an i32 payload, which must hold.
	// (payload type, name, is Send, is Sync): neither / Send-only / Sync-only
	let payloads: [(&str, &str, bool, bool); 4] = [("Rc<i32>", "Rc", false, false), ("Cell<i32>", "Cell", true, false), ("std::sync::MutexGuard<'static, i32>", "StdMutexGuard", false, true), ("ThreadKey", "ThreadKey", false, true)];
	for (p, pname, psend, psync) in payloads {
		let t = |s: &str| s.replace("@P", p);
		let ti = |s: &str| s.replace("@P", "i32");
		// (type, send expected, sync expected)
		let table: Vec<(&str, bool, bool)> = vec![
			("Mutex<@P>", psend, psend),
			("RwLock<@P>", psend, psend && psync),
			("happylock::mutex::MutexGuard<'static, @P, parking_lot::RawMutex>", false, psync),
			("happylock::mutex::MutexRef<'static, @P, parking_lot::RawMutex>", false, psync),
			("happylock::rwlock::RwLockReadGuard<'static, @P, parking_lot::RawRwLock>", false, psync),
			("happylock::rwlock::RwLockWriteGuard<'static, @P, parking_lot::RawRwLock>", false, psync),
			("happylock::rwlock::RwLockReadRef<'static, @P, parking_lot::RawRwLock>", false, psync),
			("happylock::rwlock::RwLockWriteRef<'static, @P, parking_lot::RawRwLock>", false, psync),
			("OwnedLockCollection<(Mutex<@P>, RwLock<@P>)>", psend, psend && psync),
			("BoxedLockCollection<[Mutex<@P>; 2]>", psend, psend),
			("BoxedLockCollection<Vec<RwLock<@P>>>", psend, psend && psync),
			("RetryingLockCollection<Vec<Mutex<@P>>>", psend, psend),
			("RetryingLockCollection<Box<[RwLock<@P>]>>", psend, psend && psync),
			// holding &L: Send only if L: Sync
			("RefLockCollection<'static, [Mutex<@P>; 2]>", psend, psend),
			("RefLockCollection<'static, Vec<RwLock<@P>>>", psend && psync, psend && psync),
			("BoxedLockCollection<&'static RwLock<@P>>", psend && psync, psend && psync),
			("RetryingLockCollection<&'static Mutex<@P>>", psend, psend),
			("Poisonable<Mutex<@P>>", psend, psend),
			("Poisonable<RwLock<@P>>", psend, psend && psync),
			("LockGuard<happylock::mutex::MutexRef<'static, @P, parking_lot::RawMutex>>", false, psync),
			("PoisonGuard<'static, happylock::mutex::MutexRef<'static, @P, parking_lot::RawMutex>>", false, psync),
			("PoisonRef<'static, happylock::rwlock::RwLockReadRef<'static, @P, parking_lot::RawRwLock>>", false, psync),
		];
		for (ty, send_ok, sync_ok) in table {
			let short = ty.replace("happylock::mutex::", "").replace("happylock::rwlock::", "").replace("'static, ", "").replace(", parking_lot::RawMutex", "").replace(", parking_lot::RawRwLock", "").replace("&'static ", "&");
			for (bound, ok, f) in [("Send", send_ok, "need_send_t"), ("Sync", sync_ok, "need_sync_t")] {
				if ok {
					continue;
				}
				// the twin must hold for a thread-safe payload unless the type is never Send by design (guards)
				let twin_holds = !(bound == "Send" && (ty.contains("Guard") || ty.contains("Ref<'static") || ty.contains("MutexRef") || ty.contains("ReadRef") || ty.contains("WriteRef")));
				let good = if twin_holds { format!("\t{}::<{}>();", f, ti(ty)) } else { format!("\tneed_sync_t::<{}>();", ti(ty)) };
				v.push(e("C15", &format!("{}-with-{}-payload", bound, pname), &short, "", &format!("\t{}::<{}>();", f, t(ty)), &good, "", &["E0277"]));
			}
		}
	}
	// the raw lock type's own Send / Sync must be required as well
	{
		let raws = "struct LocalRaw(parking_lot::RawMutex, std::marker::PhantomData<*const ()>);\nunsafe impl lock_api::RawMutex for LocalRaw {\n\tconst INIT: Self = LocalRaw(<parking_lot::RawMutex as lock_api::RawMutex>::INIT, std::marker::PhantomData);\n\ttype GuardMarker = lock_api::GuardNoSend;\n\tfn lock(&self) { lock_api::RawMutex::lock(&self.0) }\n\tfn try_lock(&self) -> bool { lock_api::RawMutex::try_lock(&self.0) }\n\tunsafe fn unlock(&self) { lock_api::RawMutex::unlock(&self.0) }\n}\nstruct LocalRawRw(parking_lot::RawRwLock, std::marker::PhantomData<*const ()>);\nunsafe impl lock_api::RawRwLock for LocalRawRw {\n\tconst INIT: Self = LocalRawRw(<parking_lot::RawRwLock as lock_api::RawRwLock>::INIT, std::marker::PhantomData);\n\ttype GuardMarker = lock_api::GuardNoSend;\n\tfn lock_shared(&self) { lock_api::RawRwLock::lock_shared(&self.0) }\n\tfn try_lock_shared(&self) -> bool { lock_api::RawRwLock::try_lock_shared(&self.0) }\n\tunsafe fn unlock_shared(&self) { lock_api::RawRwLock::unlock_shared(&self.0) }\n\tfn lock_exclusive(&self) { lock_api::RawRwLock::lock_exclusive(&self.0) }\n\tfn try_lock_exclusive(&self) -> bool { lock_api::RawRwLock::try_lock_exclusive(&self.0) }\n\tunsafe fn unlock_exclusive(&self) { lock_api::RawRwLock::unlock_exclusive(&self.0) }\n}\n";
		for (recv, bound, ty, good) in [
			("Mutex<i32, !Send raw>", "need_send_t", "happylock::mutex::Mutex<i32, LocalRaw>", "happylock::mutex::Mutex<i32, parking_lot::RawMutex>"),
			("Mutex<i32, !Sync raw>", "need_sync_t", "happylock::mutex::Mutex<i32, LocalRaw>", "happylock::mutex::Mutex<i32, parking_lot::RawMutex>"),
			("RwLock<i32, !Send raw>", "need_send_t", "happylock::rwlock::RwLock<i32, LocalRawRw>", "happylock::rwlock::RwLock<i32, parking_lot::RawRwLock>"),
			("RwLock<i32, !Sync raw>", "need_sync_t", "happylock::rwlock::RwLock<i32, LocalRawRw>", "happylock::rwlock::RwLock<i32, parking_lot::RawRwLock>"),
			("MutexRef<i32, !Sync raw>", "need_sync_t", "happylock::mutex::MutexRef<'static, i32, LocalRaw>", "happylock::mutex::MutexRef<'static, i32, parking_lot::RawMutex>"),
			("RwLockReadRef<i32, !Sync raw>", "need_sync_t", "happylock::rwlock::RwLockReadRef<'static, i32, LocalRawRw>", "happylock::rwlock::RwLockReadRef<'static, i32, parking_lot::RawRwLock>"),
			("RwLockWriteRef<i32, !Sync raw>", "need_sync_t", "happylock::rwlock::RwLockWriteRef<'static, i32, LocalRawRw>", "happylock::rwlock::RwLockWriteRef<'static, i32, parking_lot::RawRwLock>"),
			("LockCollection<Mutex<i32, !Sync raw>>", "need_sync_t", "LockCollection<happylock::mutex::Mutex<i32, LocalRaw>>", "LockCollection<happylock::mutex::Mutex<i32, parking_lot::RawMutex>>"),
			("RefLockCollection<[RwLock<i32, !Sync raw>;1]>: Send", "need_send_t", "RefLockCollection<'static, [happylock::rwlock::RwLock<i32, LocalRawRw>; 1]>", "RefLockCollection<'static, [happylock::rwlock::RwLock<i32, parking_lot::RawRwLock>; 1]>"),
		] {
			let mut en = e("C15", "raw-lock-type-not-thread-safe", recv, "", &format!("\t{}::<{}>();", bound, ty), &format!("\t{}::<{}>();", bound, good), "", &["E0277"]);
			en.items = raws.to_string();
			v.push(en);
		}
	}
	// the dynamic consequence of a missing Sync bound: two threads read a Cell through an RwLock
	v.push(e(
		"C15",
		"share-cell-through-rwlock",
		"RwLock<Cell<i32>>",
		"\tlet l = RwLock::new(Cell::new(0));\n",
		"\tstd::thread::scope(|s| { s.spawn(|| { let k = ThreadKey::get().unwrap(); l.read(k).set(1); }); });",
		"\tstd::thread::scope(|s| { s.spawn(|| { let k = ThreadKey::get().unwrap(); 1 }); }); let k = ThreadKey::get().unwrap(); l.read(k).set(1);",
		"",
		&["E0277"],
	));
	v.push(e(
		"C15",
		"share-cell-through-mutex-guard",
		"MutexGuard<Cell<i32>>",
		&format!("{}\tlet l = Mutex::new(Cell::new(0));\n\tlet g = l.lock(key);\n", keyo),
		"\tstd::thread::scope(|s| { s.spawn(|| g.set(1)); });",
		"\tstd::thread::scope(|s| { s.spawn(|| 1); }); g.set(1);",
		"",
		&["E0277"],
	));
	v.push(e(
		"C15",
		"send-ref-collection-over-non-sync-lock",
		"RefLockCollection<[RwLock<Cell<i32>>;1]>",
		"\tlet data = [RwLock::new(Cell::new(0))];\n\tlet c = RefLockCollection::new(&data);\n",
		"\tstd::thread::scope(|s| { s.spawn(move || { let k = ThreadKey::get().unwrap(); c.read(k)[0].set(1); }); });",
		"\tstd::thread::scope(|s| { s.spawn(move || 1); }); let k = ThreadKey::get().unwrap(); c.read(k)[0].set(1);",
		"",
		&["E0277"],
	));

	// key-holding guards must stay !Send even over a raw lock whose own guards may be sent (GuardMarker = GuardSend):
	// there only the ThreadKey inside the guard prevents it. The twin shows that the key-less *Ref of the same lock is Send.
	let send_raw = "struct SendRaw(parking_lot::RawMutex);\nunsafe impl lock_api::RawMutex for SendRaw {\n\tconst INIT: Self = SendRaw(<parking_lot::RawMutex as lock_api::RawMutex>::INIT);\n\ttype GuardMarker = lock_api::GuardSend;\n\tfn lock(&self) { lock_api::RawMutex::lock(&self.0) }\n\tfn try_lock(&self) -> bool { lock_api::RawMutex::try_lock(&self.0) }\n\tunsafe fn unlock(&self) { lock_api::RawMutex::unlock(&self.0) }\n}\nstruct SendRawRw(parking_lot::RawRwLock);\nunsafe impl lock_api::RawRwLock for SendRawRw {\n\tconst INIT: Self = SendRawRw(<parking_lot::RawRwLock as lock_api::RawRwLock>::INIT);\n\ttype GuardMarker = lock_api::GuardSend;\n\tfn lock_shared(&self) { lock_api::RawRwLock::lock_shared(&self.0) }\n\tfn try_lock_shared(&self) -> bool { lock_api::RawRwLock::try_lock_shared(&self.0) }\n\tunsafe fn unlock_shared(&self) { lock_api::RawRwLock::unlock_shared(&self.0) }\n\tfn lock_exclusive(&self) { lock_api::RawRwLock::lock_exclusive(&self.0) }\n\tfn try_lock_exclusive(&self) -> bool { lock_api::RawRwLock::try_lock_exclusive(&self.0) }\n\tunsafe fn unlock_exclusive(&self) { lock_api::RawRwLock::unlock_exclusive(&self.0) }\n}\ntype MRef = happylock::mutex::MutexRef<'static, i32, SendRaw>;\ntype RRef = happylock::rwlock::RwLockReadRef<'static, i32, SendRawRw>;\ntype WRef = happylock::rwlock::RwLockWriteRef<'static, i32, SendRawRw>;\n";
	for (recv, bad_ty, good_ty) in [
		("MutexGuard", "happylock::mutex::MutexGuard<'static, i32, SendRaw>", "MRef"),
		("RwLockReadGuard", "happylock::rwlock::RwLockReadGuard<'static, i32, SendRawRw>", "RRef"),
		("RwLockWriteGuard", "happylock::rwlock::RwLockWriteGuard<'static, i32, SendRawRw>", "WRef"),
		("LockGuard<MutexRef>", "LockGuard<MRef>", "MRef"),
		("LockGuard<(MutexRef, RwLockWriteRef)>", "LockGuard<(MRef, WRef)>", "(MRef, WRef)"),
		("LockGuard<Box<[RwLockReadRef]>>", "LockGuard<Box<[RRef]>>", "Box<[RRef]>"),
		("LockGuard<[MutexRef; 2]>", "LockGuard<[MRef; 2]>", "[MRef; 2]"),
		("PoisonGuard<MutexRef>", "PoisonGuard<'static, MRef>", "PoisonRef<'static, MRef>"),
		("LockGuard<PoisonResult<PoisonRef<MutexRef>>>", "LockGuard<PoisonResult<PoisonRef<'static, MRef>>>", "PoisonResult<PoisonRef<'static, MRef>>"),
		// every other public type that carries a ThreadKey: the error values that hand the key or the guard back
		("PoisonError<PoisonGuard<MutexRef>>", "PoisonError<PoisonGuard<'static, MRef>>", "PoisonError<PoisonRef<'static, MRef>>"),
		("PoisonResult<PoisonGuard<MutexRef>>", "PoisonResult<PoisonGuard<'static, MRef>>", "PoisonResult<PoisonRef<'static, MRef>>"),
		("TryLockPoisonableError<MutexRef>", "TryLockPoisonableError<'static, MRef>", "PoisonError<PoisonRef<'static, MRef>>"),
		("TryLockPoisonableError<()>", "TryLockPoisonableError<'static, ()>", "PoisonError<()>"),
		("TryLockPoisonableResult<MutexRef>", "TryLockPoisonableResult<'static, MRef>", "PoisonResult<PoisonRef<'static, MRef>>"),
		("Result<LockGuard<MutexRef>, ThreadKey>", "Result<LockGuard<MRef>, ThreadKey>", "Result<MRef, ()>"),
		("Option<ThreadKey>", "Option<ThreadKey>", "Option<MRef>"),
		("Box<ThreadKey>", "Box<ThreadKey>", "Box<MRef>"),
		("Mutex<ThreadKey> guard payload", "happylock::mutex::MutexRef<'static, ThreadKey, SendRaw>", "MRef"),
	] {
		let mut en = e("C14", "send-guard-over-GuardSend-raw-lock", recv, "", &format!("\tneed_send_t::<{}>();", bad_ty), &format!("\tneed_send_t::<{}>();", good_ty), "", &["E0277"]);
		en.items = send_raw.to_string();
		v.push(en);
	}
	{
		let mut en = e("C14", "send-guard-over-GuardSend-raw-lock", "collection guard moved to another thread", "\tlet c = LockCollection::new(happylock::mutex::Mutex::<i32, SendRaw>::new(1));\n\tlet g = c.lock(ThreadKey::get().unwrap());\n", "\tstd::thread::scope(|s| { s.spawn(move || drop(g)); });", "\tstd::thread::scope(|s| { s.spawn(move || ()); }); drop(g);", "", &["E0277"]);
		en.items = send_raw.to_string();
		v.push(en);
	}
	// no guard or key-less lock reference can be duplicated: a copy would release a second time, or outlive the hold
	let guard_items = "fn need_clone_t<T: Clone>() {}\nfn need_copy_t<T: Copy>() {}\ntype MRef = happylock::mutex::MutexRef<'static, i32, parking_lot::RawMutex>;\ntype RRef = happylock::rwlock::RwLockReadRef<'static, i32, parking_lot::RawRwLock>;\ntype WRef = happylock::rwlock::RwLockWriteRef<'static, i32, parking_lot::RawRwLock>;\n";
	for (prop, name, ty) in [
		("C15", "MutexRef", "MRef"),
		("C15", "RwLockReadRef", "RRef"),
		("C15", "RwLockWriteRef", "WRef"),
		("C15", "PoisonRef<MutexRef>", "PoisonRef<'static, MRef>"),
		("C15", "PoisonRef<RwLockReadRef>", "PoisonRef<'static, RRef>"),
		// a duplicated key-less hold survives `unlock*` of the key-holding guard it came from: the key comes back
		// while a hold is live (C14), besides the data staying reachable after the hold ended (C15)
		("C14", "MutexRef (a hold that outlives the key-holding guard)", "MRef"),
		("C14", "RwLockReadRef (a hold that outlives the key-holding guard)", "RRef"),
		("C14", "RwLockWriteRef (a hold that outlives the key-holding guard)", "WRef"),
		("C14", "PoisonRef<RwLockReadRef> (a hold that outlives the key-holding guard)", "PoisonRef<'static, RRef>"),
		("C14", "MutexGuard", "happylock::mutex::MutexGuard<'static, i32, parking_lot::RawMutex>"),
		("C14", "RwLockReadGuard", "happylock::rwlock::RwLockReadGuard<'static, i32, parking_lot::RawRwLock>"),
		("C14", "RwLockWriteGuard", "happylock::rwlock::RwLockWriteGuard<'static, i32, parking_lot::RawRwLock>"),
		("C14", "LockGuard<(MutexRef, RwLockReadRef)>", "LockGuard<(MRef, RRef)>"),
		("C14", "LockGuard<Box<[RwLockReadRef]>>", "LockGuard<Box<[RRef]>>"),
		("C14", "PoisonGuard<RwLockReadRef>", "PoisonGuard<'static, RRef>"),
		("C14", "ThreadKey", "ThreadKey"),
	] {
		for (tr, f) in [("Clone", "need_clone_t"), ("Copy", "need_copy_t")] {
			let mut en = e(prop, "duplicate-a-guard", &format!("{}: {}", name, tr), "", &format!("\t{}::<{}>();", f, ty), &format!("\t{}::<i32>();", f), "", &["E0277"]);
			en.items = guard_items.to_string();
			v.push(en);
		}
	}
	for (i, en) in v.iter_mut().enumerate() {
		en.id = format!("{}-{:03}", en.prop, i);
	}
	v
}

/// Where the generated programs are written (overridable for development copies of the harness).
fn out_root() -> String {
	std::env::var("HLVERIF_OUT_DIR").unwrap_or_else(|_| "/verif/c14c15/out".into())
}

const FORGED_ITEMS: &str = "struct Forged;\nimpl std::borrow::Borrow<ThreadKey> for Forged { fn borrow(&self) -> &ThreadKey { unreachable!() } }\nimpl std::borrow::BorrowMut<ThreadKey> for Forged { fn borrow_mut(&mut self) -> &mut ThreadKey { unreachable!() } }\nimpl AsMut<ThreadKey> for Forged { fn as_mut(&mut self) -> &mut ThreadKey { unreachable!() } }\nimpl AsRef<ThreadKey> for Forged { fn as_ref(&self) -> &ThreadKey { unreachable!() } }\nimpl std::ops::Deref for Forged { type Target = ThreadKey; fn deref(&self) -> &ThreadKey { unreachable!() } }\nimpl std::ops::DerefMut for Forged { fn deref_mut(&mut self) -> &mut ThreadKey { unreachable!() } }\nimpl From<Forged> for Option<ThreadKey> { fn from(_: Forged) -> Self { None } }\n";

fn find_rlib() -> Result<(String, String), String> {
	// ask cargo for the artifact built from /repo's current working tree (harness already built by run.sh)
	let out = Command::new("cargo").args(["build", "--release", "--message-format=json", "-q"]).current_dir(std::env::var("HLVERIF_HARNESS_DIR").unwrap_or_else(|_| "/verif/harness".into())).env("CARGO_NET_OFFLINE", "true").output().map_err(|e| e.to_string())?;
	let mut rlib = None;
	for line in String::from_utf8_lossy(&out.stdout).lines() {
		if let Ok(v) = serde_json::from_str::<Value>(line) {
			if v["reason"] == "compiler-artifact" && v["target"]["name"] == "happylock" {
				if let Some(f) = v["filenames"].as_array() {
					for x in f {
						if let Some(s) = x.as_str() {
							if s.ends_with(".rlib") {
								rlib = Some(s.to_string());
							}
						}
					}
				}
			}
		}
	}
	let rlib = rlib.ok_or("cargo did not report the happylock rlib")?;
	let deps = std::path::Path::new(&rlib).parent().unwrap().to_string_lossy().to_string();
	Ok((rlib, deps))
}

pub struct RunOut {
	pub ok: bool,
	pub codes: Vec<String>,
	pub lines: Vec<i64>,
	pub first_message: String,
}

fn rustc(path: &str, rlib: &str, deps: &str) -> RunOut {
	let mut pl = None;
	let mut la = None;
	if let Ok(rd) = std::fs::read_dir(deps) {
		for f in rd.flatten() {
			let n = f.file_name().to_string_lossy().to_string();
			if n.starts_with("libparking_lot-") && n.ends_with(".rlib") {
				pl = Some(f.path().to_string_lossy().to_string());
			}
			if n.starts_with("liblock_api-") && n.ends_with(".rlib") {
				la = Some(f.path().to_string_lossy().to_string());
			}
		}
	}
	let mut cmd = Command::new("rustc");
	cmd.args(["--edition", "2021", "--crate-type", "lib", "--emit=metadata", "--error-format=json", "-A", "warnings", "-L"]).arg(format!("dependency={}", deps)).arg("--extern").arg(format!("happylock={}", rlib));
	if let Some(p) = pl {
		cmd.arg("--extern").arg(format!("parking_lot={}", p));
	}
	if let Some(p) = la {
		cmd.arg("--extern").arg(format!("lock_api={}", p));
	}
	let out_meta = format!("{}.rmeta", path);
	cmd.arg("-o").arg(&out_meta).arg(path);
	let out = cmd.output().expect("run rustc");
	let _ = std::fs::remove_file(&out_meta);
	let mut codes = vec![];
	let mut lines = vec![];
	let mut first = String::new();
	for l in String::from_utf8_lossy(&out.stderr).lines() {
		if let Ok(v) = serde_json::from_str::<Value>(l) {
			if v["level"] == "error" {
				if let Some(c) = v["code"]["code"].as_str() {
					codes.push(c.to_string());
				} else if !v["message"].as_str().unwrap_or("").starts_with("aborting") {
					codes.push("E????".into());
				}
				if first.is_empty() && !v["message"].as_str().unwrap_or("").starts_with("aborting") {
					first = v["message"].as_str().unwrap_or("").to_string();
				}
				if let Some(sp) = v["spans"].as_array() {
					for s in sp {
						if s["is_primary"] == true {
							lines.push(s["line_start"].as_i64().unwrap_or(-1));
						}
					}
				}
			}
		}
	}
	RunOut { ok: out.status.success(), codes, lines, first_message: first }
}

/// Run the corpus entries of one route and return violations re-labelled for `prop` (used by C07 for its
/// compile-time clause: new / new_ref only accept owning inputs).
pub fn run_route(route_prefix: &str, prop: &'static str, rep: &mut Report) {
	let (rlib, deps) = match find_rlib() {
		Ok(x) => x,
		Err(e) => {
			rep.machinery.push(format!("cannot locate the happylock rlib: {}", e));
			return;
		}
	};
	let all: Vec<Entry> = entries().into_iter().filter(|e| e.route.starts_with(route_prefix)).collect();
	let dir = format!("{}/{}-{}", out_root(), prop, route_prefix);
	let _ = std::fs::remove_dir_all(&dir);
	std::fs::create_dir_all(&dir).expect("mkdir");
	let outs = par_cases(&all, |_, en| {
		let (bs, _) = en.source(true);
		let (gs, _) = en.source(false);
		let bp = format!("{}/{}_bad.rs", dir, en.id);
		let gp = format!("{}/{}_good.rs", dir, en.id);
		std::fs::write(&bp, bs).unwrap();
		std::fs::write(&gp, gs).unwrap();
		(rustc(&bp, &rlib, &deps), rustc(&gp, &rlib, &deps))
	});
	for (en, (bad, good)) in all.iter().zip(&outs) {
		rep.add("compile_time_clause_program_pairs", 1);
		if !good.ok {
			rep.machinery.push(format!("corpus twin {} ({}) does not compile: {}", en.id, en.route, good.first_message));
			continue;
		}
		if bad.ok {
			rep.violation(Viol { prop: prop.into(), key: format!("compiles|{}", en.route), detail: format!("the offending program is accepted by rustc: `{}` (twin: `{}`), files {}/{}_bad.rs", en.bad.trim(), en.good.trim(), dir, en.id), replay: json!({"kind": "compile", "id": en.id, "route": en.route, "offending_line": en.bad.trim(), "twin_line": en.good.trim(), "files": format!("{}/{}_{{bad,good}}.rs", dir, en.id)}) });
		} else {
			rep.add("compile_time_clause_rejected", 1);
		}
	}
}

pub fn check(prop: &'static str, tier: &str) -> ! {
	let mut rep = Report::new(prop, tier, "exploration");
	rep.assumptions = vec![
		"rustc (the repository's toolchain) is the oracle; each offending program must be rejected with an expected error code whose primary span is on the marked line, and its twin (same file, only the marked line differs) must compile against the rlib built from /repo's working tree".into(),
		"this decides the enumerated corpus (escape route x receiver type x API x key style); it is not a proof that no other escape route exists".into(),
	];
	let (rlib, deps) = match find_rlib() {
		Ok(x) => x,
		Err(e) => {
			rep.machinery.push(format!("cannot locate the happylock rlib: {}", e));
			rep.set("evaluations", 0u64);
			rep.finish()
		}
	};
	let all: Vec<Entry> = entries().into_iter().filter(|e| e.prop == prop).collect();
	let dir = format!("{}/{}", out_root(), prop);
	let _ = std::fs::remove_dir_all(&dir);
	std::fs::create_dir_all(&dir).expect("mkdir");
	struct Res {
		bad: RunOut,
		good: RunOut,
		mark: usize,
	}
	let outs = par_cases(&all, |_, en| {
		let (bs, mark) = en.source(true);
		let (gs, _) = en.source(false);
		let bp = format!("{}/{}_bad.rs", dir, en.id);
		let gp = format!("{}/{}_good.rs", dir, en.id);
		std::fs::write(&bp, bs).unwrap();
		std::fs::write(&gp, gs).unwrap();
		Res { bad: rustc(&bp, &rlib, &deps), good: rustc(&gp, &rlib, &deps), mark }
	});
	let mut routes = BTreeSet::new();
	let mut rejected = 0u64;
	for (en, r) in all.iter().zip(&outs) {
		rep.add("evaluations", 2);
		rep.add("program_pairs", 1);
		routes.insert(en.route.split('|').next().unwrap().to_string());
		let replay = json!({"kind": "compile", "id": en.id, "route": en.route, "offending_line": en.bad.trim(), "twin_line": en.good.trim(), "files": format!("{}/{}_{{bad,good}}.rs", dir, en.id)});
		if !r.good.ok {
			rep.machinery.push(format!("corpus twin {} ({}) does not compile: {} {:?}", en.id, en.route, r.good.first_message, r.good.codes));
			continue;
		}
		if r.bad.ok {
			rep.violation(Viol { prop: prop.into(), key: format!("compiles|{}", en.route), detail: format!("the offending program is accepted by rustc: `{}` (twin: `{}`), files {}/{}_bad.rs", en.bad.trim(), en.good.trim(), dir, en.id), replay });
			continue;
		}
		rejected += 1;
		let code_ok = r.bad.codes.iter().any(|c| en.codes.contains(&c.as_str()));
		let line_ok = r.bad.lines.iter().any(|l| (*l - r.mark as i64).abs() <= en.span_slack);
		if !code_ok || !line_ok {
			rep.violation(Viol {
				prop: prop.into(),
				key: format!("rejected-for-another-reason|{}", en.route),
				detail: format!("`{}` is rejected, but with {:?} at lines {:?} (marked line {}), expected one of {:?} on the marked line: {}", en.bad.trim(), r.bad.codes, r.bad.lines, r.mark, en.codes, r.bad.first_message),
				replay,
			});
		}
	}
	rep.set("distinct_nontrivial", rejected);
	rep.set("escape_routes", routes.len() as u64);
	if let Some((en, r)) = all.iter().zip(&outs).find(|(e, _)| e.route.starts_with("nested-scoped")) {
		rep.sample(json!({"route": en.route, "offending_line": en.bad.trim(), "rustc": r.bad.codes, "twin_line": en.good.trim(), "twin": "compiles"}));
	}
	if let Some((en, r)) = all.iter().zip(&outs).find(|(e, _)| e.route.starts_with("Sync-with") || e.route.starts_with("send-guard")) {
		rep.sample(json!({"route": en.route, "offending_line": en.bad.trim(), "rustc": r.bad.codes, "twin_line": en.good.trim(), "twin": "compiles"}));
	}
	rep.set("rule", "generated corpus: every (escape route x receiver type x API x key style) combination of the tables in corpus.rs, two programs each (offending + twin differing only in the marked line), each compiled by rustc against the rlib built from /repo's working tree. Non-trivial = offending programs that rustc rejects (counted), each checked for error code and primary-span line");
	rep.finish()
}
