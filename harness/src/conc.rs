//! Concurrent checks: run program families through the explorer in parallel and
//! turn the results into a report.

use std::sync::atomic::{AtomicUsize, Ordering};
use std::sync::Mutex;

use serde_json::json;

use crate::explore::{self, Cfg, Found, Stats};
use crate::families as fam;
use crate::interp::{Body, Flavour, Program, FLAVOURS};
use crate::report::{Report, Viol};

pub fn workers() -> usize {
	std::env::var("VERIF_WORKERS").ok().and_then(|s| s.parse().ok()).unwrap_or_else(|| std::thread::available_parallelism().map(|n| n.get()).unwrap_or(8))
}

pub struct FamRun {
	pub name: String,
	pub programs: usize,
	pub stats: Stats,
	pub found: Vec<(usize, Found)>,
	pub machinery: Vec<String>,
	pub contended_programs: usize,
	pub capped_programs: usize,
	pub sample: Option<(usize, Vec<(u8, u16)>)>,
}

pub fn run_family(name: &str, progs: &[Program], cfg: &Cfg) -> FamRun {
	run_family_with(name, progs, cfg, None)
}

pub fn run_family_with(name: &str, progs: &[Program], cfg: &Cfg, hook: Option<&explore::StateHook>) -> FamRun {
	let next = AtomicUsize::new(0);
	let acc = Mutex::new(FamRun { name: name.into(), programs: progs.len(), stats: Stats::default(), found: vec![], machinery: vec![], contended_programs: 0, capped_programs: 0, sample: None });
	std::thread::scope(|s| {
		for _ in 0..workers().min(progs.len().max(1)) {
			s.spawn(|| loop {
				let i = next.fetch_add(1, Ordering::Relaxed);
				if i >= progs.len() {
					break;
				}
				let o = explore::explore_with(&progs[i], cfg, hook);
				let mut a = acc.lock().unwrap();
				a.stats.add(&o.stats);
				if o.stats.blocked_states > 0 {
					a.contended_programs += 1;
				}
				if o.stats.cap_hit {
					a.capped_programs += 1;
				}
				for f in o.found {
					a.found.push((i, f));
				}
				if let Some(m) = o.machinery {
					a.machinery.push(format!("{}: {}", progs[i].describe(), m));
				}
				if a.sample.as_ref().map(|(_, s)| s.len() < o.sample_schedule.len()).unwrap_or(true) && !o.sample_schedule.is_empty() {
					a.sample = Some((i, o.sample_schedule));
				}
			});
		}
	});
	acc.into_inner().unwrap()
}

pub fn absorb(rep: &mut Report, progs: &[Program], cfg: &Cfg, fr: FamRun) {
	rep.add("programs", fr.programs as u64);
	rep.add("states", fr.stats.states);
	rep.add("transitions", fr.stats.transitions);
	rep.add("executions", fr.stats.executions);
	rep.add("traces_validated_against_impl", fr.stats.executions);
	rep.add("terminal_states", fr.stats.terminal);
	rep.add("states_with_blocked_thread", fr.stats.blocked_states);
	rep.add("programs_with_contention", fr.contended_programs as u64);
	rep.add("distinct_final_outcomes", fr.stats.distinct_outcomes as u64);
	rep.add("retry_bound_completions", fr.stats.completions);
	let md = rep.get("max_depth").max(fr.stats.max_depth as u64);
	rep.set("max_depth", md);
	let fams = rep.coverage.entry("families".into()).or_insert_with(|| json!([]));
	fams.as_array_mut().unwrap().push(json!({
		"family": fr.name, "programs": fr.programs, "states": fr.stats.states, "transitions": fr.stats.transitions,
		"executions": fr.stats.executions, "programs_with_contention": fr.contended_programs, "max_depth": fr.stats.max_depth,
		"preemption_bound": cfg.max_preemptions, "retry_rounds": cfg.retry_rounds, "capped_programs": fr.capped_programs,
	}));
	if fr.capped_programs > 0 {
		rep.exhaustive = false;
		if rep.tier == "quick" {
			rep.machinery.push(format!("family {}: state cap hit in {} program(s)", fr.name, fr.capped_programs));
		} else {
			rep.notes.push(format!("family {}: state cap {} hit in {} program(s); those programs are not exhaustively explored", fr.name, cfg.state_cap, fr.capped_programs));
		}
	}
	if let Some((i, s)) = &fr.sample {
		rep.sample(json!({"family": fr.name, "program": progs[*i].describe(), "one_complete_schedule": s.iter().map(|(t, _)| format!("T{}", t)).collect::<Vec<_>>().join(" ")}));
	}
	for (i, f) in fr.found {
		let history = if progs[i].menu.is_empty() {
			String::new()
		} else {
			format!(" history: {}", f.schedule.iter().map(|(t, a)| format!("T{}:{}", t, describe_act(&progs[i], *t as usize, *a))).collect::<Vec<_>>().join(", "))
		};
		rep.violation(Viol {
			prop: f.violation.prop.to_string(),
			key: f.violation.key.clone(),
			detail: format!("{} -- program: {}{}", f.violation.detail, progs[i].describe(), history),
			replay: json!({"kind": "concurrent", "program": progs[i], "cfg": cfg, "schedule": f.schedule}),
		});
	}
	for m in fr.machinery {
		rep.machinery.push(m);
	}
}

pub fn describe_act(p: &Program, t: usize, a: u16) -> String {
	use crate::menu::MAct;
	match p.menu.get(t).and_then(|m| m.actions.get(a as usize)) {
		Some(act) => match act {
			MAct::Lock { t, .. } | MAct::Try { t, .. } | MAct::Scoped { t, .. } | MAct::IsPoisoned { t } | MAct::ClearPoison { t } => format!("{}.{}", p.specs[*t].describe(), act.kind()),
			_ => act.kind().to_string(),
		},
		None => "step".into(),
	}
}

fn run_into(rep: &mut Report, name: &str, progs: Vec<Program>, cfg: &Cfg) {
	let t = std::time::Instant::now();
	let fr = run_family(name, &progs, cfg);
	eprintln!("  family {:<14} programs={:<5} states={:<8} transitions={:<9} execs={:<8} contended={:<5} found={} [{:.1}s]", name, fr.programs, fr.stats.states, fr.stats.transitions, fr.stats.executions, fr.contended_programs, fr.found.len(), t.elapsed().as_secs_f64());
	absorb(rep, &progs, cfg, fr);
}

pub fn common_assumptions(rep: &mut Report) {
	rep.assumptions = vec![
		"VRaw (harness raw lock) grants exactly per its stated rules; production raw locks (parking_lot) are trusted to implement lock_api".into(),
		"sequentially consistent interleavings at raw-lock-operation / yield granularity; weak-memory effects on the Relaxed poison flags are out of scope".into(),
		"happylock is deterministic given the results of its raw operations (replay divergence is a hard machinery error)".into(),
		"bounds are those listed under coverage.families; nothing beyond them is claimed".into(),
	];
}

/// The shared family set behind C01 / C02 / C03 / C04 / C05 (concurrent part).
pub fn core_families(rep: &mut Report, thorough: bool) {
	let body = Body::TOUCH;
	// violations of other properties are recorded (XREF) but do not end the path: a wrong-mode release (C05)
	// must be allowed to go on and break mutual exclusion (C02), for instance
	let cfg = Cfg { retry_rounds: if thorough { 3 } else { 2 }, verdict_props: vec![rep.prop.clone()], ..Cfg::default() };
	run_into(rep, "A2", fam::fam_a(2, true, body), &cfg);
	run_into(rep, "A3", fam::fam_a(3, thorough, body), &cfg);
	run_into(rep, "B", fam::fam_b(body, if thorough { &[(true, true), (true, false), (false, false)] } else { &[(true, true), (true, false)] }), &cfg);
	run_into(rep, "C", fam::fam_c(body, !thorough), &cfg);
	run_into(rep, "N", fam::fam_pairs_of(&fam::nested_specs(), "N", body, &[Flavour::Guard]), &cfg);
	run_into(rep, "X", fam::fam_pairs_of(&fam::mixed_specs(), "X", body, &[Flavour::Guard]), &cfg);
	run_into(rep, "D", fam::fam_d(body), &cfg);
	run_into(rep, "F", fam::fam_f(body, thorough), &cfg);
	run_into(rep, "V", fam::fam_vecs(body), &cfg);
	run_into(rep, "M", fam::fam_same(body, thorough), &cfg);
	run_into(rep, "W", fam::fam_unchecked(body), &cfg);
	run_into(rep, "K", fam::fam_kill(thorough), &cfg);
	run_into(rep, "K2", fam::fam_kill2(thorough), &cfg);
	run_into(rep, "Z", fam::fam_duplicates(), &cfg);
	run_into(rep, "Q", fam::fam_rekey(), &cfg);
	run_into(rep, "U", fam::fam_unlock(thorough), &cfg);
	run_into(rep, "S", fam::fam_readers(thorough), &cfg);
	run_into(rep, "G", fam::fam_debug(thorough), &cfg);
	run_into(rep, "G2", fam::fam_debug_kill(thorough), &cfg);
	run_into(rep, "T", fam::fam_twice(Body { touch: true, yield_mid: false, panic: false, clear: false, rekey: false }, thorough), &cfg);
	if thorough {
		run_into(rep, "N-flavours", fam::fam_pairs_of(&fam::nested_specs(), "Nf", body, &FLAVOURS[1..]), &cfg);
		run_into(rep, "E3", fam::fam_e3(Body { touch: true, yield_mid: false, panic: false, clear: false, rekey: false }), &cfg);
		run_into(rep, "N3", fam::fam_triples(Body { touch: true, yield_mid: false, panic: false, clear: false, rekey: false }), &cfg);
		for pb in [2u32, 3] {
			let cfg4 = Cfg { max_preemptions: Some(pb), ..cfg.clone() };
			run_into(rep, &format!("E4-4/pb{}", pb), fam::fam_e4(4, Body { touch: true, yield_mid: false, panic: false, clear: false, rekey: false }), &cfg4);
			run_into(rep, &format!("E4-5/pb{}", pb), fam::fam_e4(5, Body { touch: true, yield_mid: false, panic: false, clear: false, rekey: false }), &cfg4);
		}
	}
}

/// Families G / G2 (Debug against holders and killers) under the verdict of the report's own property (used by C17).
pub fn debug_families_into(rep: &mut Report, thorough: bool) {
	let cfg = Cfg { verdict_props: vec![rep.prop.clone()], ..Cfg::default() };
	run_into(rep, "G", fam::fam_debug(thorough), &cfg);
	run_into(rep, "G2", fam::fam_debug_kill(thorough), &cfg);
}

/// Family P under the verdict of the report's own property (used by C04).
pub fn poison_family_into(rep: &mut Report, thorough: bool) {
	let cfg = Cfg { verdict_props: vec![rep.prop.clone()], post_release_points: true, ..Cfg::default() };
	run_into(rep, "P", fam::fam_poison(thorough), &cfg);
}

pub fn check_core(prop: &str, tier: &str) -> ! {
	let mut rep = Report::new(prop, tier, "model_checking");
	common_assumptions(&mut rep);
	core_families(&mut rep, tier == "thorough");
	if prop == "C05" {
		// the release audit is also the only oracle that sees a wrong-mode / foreign release on paths that only
		// other families exercise: retrying back-offs (family R), unwinding after a user panic, poison programs
		let cfg = Cfg { verdict_props: vec!["C05".into()], ..Cfg::default() };
		let t = std::time::Instant::now();
		let progs = fam::fam_c09(tier == "thorough");
		let fr = run_family_with("R", &progs, &cfg, None);
		eprintln!("  family R programs={} states={} [{:.1}s]", fr.programs, fr.stats.states, t.elapsed().as_secs_f64());
		absorb(&mut rep, &progs, &cfg, fr);
		run_into(&mut rep, "A2+panic", fam::with_panics(&fam::fam_a(2, true, Body::TOUCH)), &cfg);
		run_into(&mut rep, "B+panic", fam::with_panics(&fam::fam_b(Body::TOUCH, &[(true, true), (true, false), (false, false)])), &cfg);
		run_into(&mut rep, "X+panic", fam::with_panics(&fam::fam_pairs_of(&fam::mixed_specs(), "X", Body::TOUCH, &[Flavour::Guard, Flavour::ScopedTryOwned])), &cfg);
		run_into(&mut rep, "P", fam::fam_poison(tier == "thorough"), &cfg);
		// a raw operation that panics (and the acquisition of a lock such a panic killed) must not make the library
		// release what the caller does not hold
		crate::faults::small_fault_sweep(&mut rep, "C05");
		// a thread that waits for a lock it holds itself: it held nothing when the call started (C03), so a hold taken by
		// an earlier step of the same call (a retry round, a rollback) was never released
		let moved: Vec<Viol> = rep.xrefs.iter().filter(|v| v.prop == "C01" && v.key.starts_with("self-wait|")).cloned().collect();
		rep.xrefs.retain(|v| !(v.prop == "C01" && v.key.starts_with("self-wait|")));
		for mut v in moved {
			v.key = format!("hold-never-released:{}", v.key);
			v.prop = "C05".into();
			rep.violation(v);
		}
		if tier == "thorough" {
			run_into(&mut rep, "N+panic", fam::with_panics(&fam::fam_pairs_of(&fam::nested_specs(), "N", Body::TOUCH, &FLAVOURS)), &cfg);
		}
		// "released exactly once when the scoped call ends", also when the call is made (and unwinds) inside a
		// destructor during an earlier unwind
		crate::seqchecks::nested_unwind_sweep(&mut rep, tier == "thorough", "C05");
		// histories with several panics / poisoned states in a row (menu searches): a hold that is not released when
		// the call ends is this property's failure whichever neighbouring oracle words it
		crate::menuchecks::c11_menu(&mut rep, tier == "thorough");
		let mine = |v: &Viol| ["leak-after-user-panic|", "leak-after-drop|", "failed-try-holds|", "scoped-returned-while-holding|", "key-returned-while-holding|"].iter().any(|p| v.key.starts_with(p));
		let moved: Vec<Viol> = rep.xrefs.iter().filter(|v| mine(v)).cloned().collect();
		rep.xrefs.retain(|v| !mine(v));
		for mut v in moved {
			v.key = format!("hold-outlives-call:{}:{}", v.prop, v.key);
			v.prop = "C05".into();
			rep.violation(v);
		}
	}
	rep.set("rule", "explicit-state search: every interleaving (at raw-lock-operation and mid-section yield granularity) of every program of each listed family, states de-duplicated on a canonical fingerprint; each transition is one real execution step of happylock under the controlled scheduler");
	rep.finish()
}

/// C09 state invariant: a thread that is blocked in a raw acquisition during an acquisition through a
/// retrying collection holds nothing (an owned unit counts as one lock).
pub fn c09_hook(g: &crate::rt::Inner, _targets: &[crate::spec::Target<'_>]) -> Vec<crate::rt::Violation> {
	use crate::rt::{Act, Pending, Status};
	let mut out = vec![];
	for t in 0..g.nthreads {
		let th = &g.threads[t];
		if th.status != Status::Parked || !th.ctx.retrying {
			continue;
		}
		if !matches!(th.ctx.kind, crate::rt::CallKind::Acquire | crate::rt::CallKind::TryAcquire) {
			continue;
		}
		if let Some(Pending::Raw(op)) = &th.pending {
			if op.act == Act::Lock && !g.grantable(t, *op) {
				let unit = g.lock_unit[op.lock as usize];
				let held: Vec<(u32, crate::rt::Mode)> = g.held(t).into_iter().filter(|(l, _)| unit == 0 || g.lock_unit[*l as usize] != unit).collect();
				if !held.is_empty() {
					out.push(crate::rt::Violation { prop: "C09", key: format!("waits-while-holding|{}", crate::rt::what_key(&th.ctx.what)), detail: format!("T{} waits for L{} during `{}` while holding {:?}", t, op.lock, th.ctx.what, held) });
				}
			}
		}
	}
	out
}

pub fn check_c09(tier: &str) -> ! {
	let thorough = tier == "thorough";
	let mut rep = Report::new("C09", tier, "model_checking");
	common_assumptions(&mut rep);
	rep.assumptions.push("an owned collection nested inside a retrying collection is one unit: waiting for its second leaf while holding its first is not counted (its leaves are reachable only through it, in one fixed order)".into());
	let progs = fam::fam_c09(thorough);
	let _ = thorough;
	let cfg = Cfg { retry_rounds: if thorough { 3 } else { 2 }, horizon: 200, verdict_props: vec!["C09".into(), "C01".into()], ..Cfg::default() };
	let t = std::time::Instant::now();
	let fr = run_family_with("R", &progs, &cfg, Some(&c09_hook));
	eprintln!("  family R programs={} states={} transitions={} execs={} contended={} completions={} found={} [{:.1}s]", fr.programs, fr.stats.states, fr.stats.transitions, fr.stats.executions, fr.contended_programs, fr.stats.completions, fr.found.len(), t.elapsed().as_secs_f64());
	absorb(&mut rep, &progs, &cfg, fr);
	// the back-off also when a raw operation panics in the middle of it: what was taken so far is still given back
	crate::faults::retry_fault_sweep(&mut rep);
	// the back-off also when its first member is killed (safe `RawLock::poison`) between acquisition and rollback
	let kprogs = fam::fam_c09_kill();
	let fr = run_family_with("R-kill", &kprogs, &cfg, Some(&c09_hook));
	absorb(&mut rep, &kprogs, &cfg, fr);
	// a deadlock or an incomplete acquisition in these families is this property's "still completes" clause
	// a deadlock, or a thread waiting for a lock it holds itself, in these families means the retrying
	// acquisition never completes
	let moved: Vec<Viol> = rep.xrefs.iter().filter(|v| v.prop == "C01").cloned().collect();
	rep.xrefs.retain(|v| v.prop != "C01");
	for mut v in moved {
		v.prop = "C09".into();
		v.key = format!("never-completes|{}", v.key);
		rep.violation(v);
	}
	rep.set("rule", "every interleaving (raw-operation granularity) of a retrying acquisition (sizes 1..3/4, read and write, every arrangement, guard and scoped flavours, nested/owned/poisonable/mutex members) against 1-2 threads holding or acquiring overlapping leaves singly, through Boxed/Ref, through another Retrying collection in another order, or through an owned unit; invariant evaluated in every state: a thread blocked inside a retrying acquisition holds nothing; every maximal execution ends with all threads finished (after at most retry_rounds adversarial restarts the execution is completed run-to-block within the horizon)");
	rep.finish()
}

pub fn check_c11(tier: &str) -> ! {
	let thorough = tier == "thorough";
	let mut rep = Report::new("C11", tier, "model_checking");
	common_assumptions(&mut rep);
	let cfg = Cfg { retry_rounds: 2, verdict_props: vec!["C11".into(), "C01".into(), "C06".into(), "C05".into()], ..Cfg::default() };
	let body = Body::TOUCH;
	let mut fams: Vec<(&str, Vec<Program>)> = vec![
		("A2+panic", fam::with_panics(&fam::fam_a(2, true, body))),
		("B+panic", fam::with_panics(&fam::fam_b(body, &[(true, true), (true, false)]))),
		("N+panic", fam::with_panics(&fam::fam_pairs_of(&fam::nested_specs(), "N", body, &[Flavour::Guard, Flavour::ScopedLent, Flavour::ScopedOwned]))),
		("X+panic", fam::with_panics(&fam::fam_pairs_of(&fam::mixed_specs(), "X", body, &[Flavour::Guard, Flavour::ScopedTryOwned]))),
		("D+panic", fam::with_panics(&fam::fam_d(body))),
		("K2+panic", fam::with_panics(&fam::fam_kill2(thorough))),
	];
	if thorough {
		fams.push(("A3+panic", fam::with_panics(&fam::fam_a(3, true, body))));
		fams.push(("C+panic", fam::with_panics(&fam::fam_c(body, false))));
		fams.push(("N-flavours+panic", fam::with_panics(&fam::fam_pairs_of(&fam::nested_specs(), "Nf", body, &FLAVOURS))));
	} else {
		fams.push(("C+panic", fam::with_panics(&fam::fam_c(body, true)).into_iter().step_by(3).collect()));
	}
	for (name, progs) in fams {
		run_into(&mut rep, name, progs, &cfg);
	}
	// histories with several panics in a row (a second panic on an already poisoned Poisonable, a panic after
	// a failed try, ...): menu search over the poisonable / plain programs with the C11 oracles as verdict
	crate::menuchecks::c11_menu(&mut rep, thorough);
	// "at any point": also when the panicking call is made by a destructor during an earlier unwind
	crate::seqchecks::c11_nested_unwind(&mut rep, thorough);
	// user code also runs inside Debug (the payload's fmt): a panic there, with or without a guard alive
	crate::seqchecks::debug_panic_sweep(&mut rep, thorough, "C11");
	// every release issued while a panic unwinds a hold must be a legal one ("released exactly once"): the audit is part of C11 here
	let is_c11 = |v: &Viol| v.prop == "C05" || (v.prop == "C01" && v.key.starts_with("deadlock|")) || (v.prop == "C06" && (v.key.starts_with("key-lost") || (v.key.starts_with("probe-mismatch|after-") && v.key.contains("panic"))));
	let moved: Vec<Viol> = rep.xrefs.iter().filter(|v| is_c11(v)).cloned().collect();
	rep.xrefs.retain(|v| !is_c11(v));
	for mut v in moved {
		v.key = format!("after-user-panic:{}:{}", v.prop, v.key);
		v.prop = "C11".into();
		rep.violation(v);
	}
	rep.set("rule", "the concurrent families re-instantiated with a panic injected at critical section j of thread i for every (i, j), every flavour (guard alive / scoped with lent key / scoped with owned key / scoped_try), kinds, modes; all interleavings at raw-operation granularity (the unwinding thread is preemptible at every release it performs). A sequential sweep repeats every flavour x kind with the call made by a destructor while the thread is already unwinding. Oracle: the injected panic reaches the caller's catch_unwind; afterwards the panicking thread holds nothing, every release was legal (audit), its key is obtainable (or the lent key still works for the next acquisition), no deadlock: all other threads finish");
	rep.finish()
}
