//! Drivers of the menu searches: C03, C06, C10 (sequential histories of two threads alternating
//! at API-call granularity; breadth-first closure over canonical states).

use serde_json::json;

use crate::conc::{absorb, run_family};
#[allow(unused_imports)]
use crate::explore;
use crate::explore::Cfg;
use crate::interp::Program;
use crate::menu::{MAct, MenuThread};
use crate::report::Report;
use crate::rt::{Gran, Policy};
use crate::spec::{Kind, Native, Spec};

fn menu_cfg(depth_cap: usize, prop: &str) -> Cfg {
	Cfg { gran: Gran::ApiCall, bfs: true, depth_cap, no_deadlock_report: true, stop_at_first: false, verdict_props: vec![prop.to_string()], cut_props: ["C01", "C02", "C03", "C04", "C05", "C06", "C11"].iter().map(|s| s.to_string()).collect(), state_cap: 600_000, ..Cfg::default() }
}

fn acq_actions(targets: &[(usize, bool)], scoped: bool, panics: bool, tries: bool) -> Vec<MAct> {
	let mut v = vec![];
	for (t, sharable) in targets {
		for write in [true, false] {
			if !write && !sharable {
				continue;
			}
			v.push(MAct::Lock { t: *t, write });
			if tries {
				v.push(MAct::Try { t: *t, write });
			}
			if scoped {
				for try_ in [false, true] {
					if try_ && !tries {
						continue;
					}
					for lent in [true, false] {
						v.push(MAct::Scoped { t: *t, write, try_, lent, panic: false });
						if panics {
							v.push(MAct::Scoped { t: *t, write, try_, lent, panic: true });
						}
					}
				}
			}
		}
	}
	v
}

fn program(name: &str, specs: Vec<Spec>, menu: Vec<MenuThread>, policy: Policy) -> Program {
	Program { specs, threads: vec![vec![]; menu.len()], policy, name: name.into(), menu }
}

fn menu_rule() -> &'static str {
	"breadth-first closure over the histories of two real threads alternating at API-call granularity: in every reachable canonical state (per thread: key-model state x live guard; owner table; leaked leaves; poison flags and poison model) every enabled action of the alphabet is executed on the real code by replaying the history on fresh objects; the reference model is compared after every step"
}

pub fn c06_programs(thorough: bool) -> Vec<Program> {
	let specs = vec![Spec::M(0), Spec::R(0), Spec::Coll(Kind::Boxed, vec![Spec::R(0), Spec::R(1)]), Spec::PR(0), Spec::Coll(Kind::Retry, vec![Spec::M(0), Spec::M(1)]), Spec::Native(Native::OwnedTupMR)];
	let all: Vec<(usize, bool)> = specs.iter().enumerate().map(|(i, s)| (i, s.sharable())).collect();
	let mut full = vec![MAct::Get, MAct::DropKey, MAct::ForgetKey, MAct::Nop, MAct::Unlock, MAct::DropGuard, MAct::ForgetGuard, MAct::PanicWithGuard];
	full.extend(acq_actions(&all, true, true, true));
	let mut small = vec![MAct::Get, MAct::DropKey, MAct::ForgetKey, MAct::Nop, MAct::Unlock, MAct::DropGuard, MAct::ForgetGuard];
	small.extend(acq_actions(&[(0, false), (1, true)], false, false, true));
	small.push(MAct::Scoped { t: 1, write: true, try_: false, lent: false, panic: true });
	let mut out = vec![];
	out.push(program("C06-menu", specs.clone(), vec![MenuThread { actions: full.clone(), reacquire: false }, MenuThread { actions: if thorough { full.clone() } else { small }, reacquire: false }], Policy::RP));
	// collections without any lock: the key discipline must not depend on there being something to lock
	let empties = vec![Spec::Coll(Kind::Retry, vec![]), Spec::Coll(Kind::Boxed, vec![]), Spec::Coll(Kind::Ref, vec![]), Spec::Native(Native::OwnedSlice(0)), Spec::M(0)];
	let all_e: Vec<(usize, bool)> = empties.iter().enumerate().map(|(i, s)| (i, s.sharable())).collect();
	let mut full_e = vec![MAct::Get, MAct::DropKey, MAct::Nop, MAct::Unlock, MAct::DropGuard, MAct::ForgetGuard, MAct::PanicWithGuard];
	full_e.extend(acq_actions(&all_e, true, true, true));
	let mut small_e = vec![MAct::Get, MAct::DropKey, MAct::Unlock, MAct::DropGuard];
	small_e.extend(acq_actions(&[(4, false)], false, false, true));
	out.push(program("C06-menu-empty", empties, vec![MenuThread { actions: full_e, reacquire: false }, MenuThread { actions: small_e, reacquire: false }], Policy::RP));
	out
}

pub fn c03_programs(thorough: bool) -> Vec<Program> {
	let mut out = vec![];
	let mut mk = |name: String, specs: Vec<Spec>, b_targets: Vec<usize>| {
		let all: Vec<(usize, bool)> = specs.iter().enumerate().map(|(i, s)| (i, s.sharable())).collect();
		let mut a = vec![MAct::Get, MAct::DropKey, MAct::Unlock, MAct::DropGuard, MAct::PanicWithGuard];
		a.extend(acq_actions(&all, true, true, true));
		// the second thread only provides contention
		let mut b = vec![MAct::Get, MAct::DropKey, MAct::Unlock, MAct::DropGuard];
		let bt: Vec<(usize, bool)> = b_targets.iter().map(|i| (*i, specs[*i].sharable())).collect();
		b.extend(acq_actions(&bt, false, false, thorough));
		out.push(program(&name, specs, vec![MenuThread { actions: a, reacquire: true }, MenuThread { actions: b, reacquire: false }], Policy::RP));
	};
	for k in crate::spec::KINDS {
		mk(format!("C03-menu-{}-plain", k.short()), vec![Spec::M(0), Spec::R(0), Spec::Coll(k, vec![Spec::R(1), Spec::R(0)]), Spec::Coll(k, vec![Spec::M(0), Spec::R(1)])], vec![0, 1]);
		mk(format!("C03-menu-{}-owned", k.short()), vec![Spec::OW(0), Spec::Coll(k, vec![Spec::OW(0), Spec::R(0)]), Spec::R(0), Spec::Coll(k, vec![Spec::Coll(Kind::Retry, vec![Spec::R(1), Spec::R(0)]), Spec::R(2)])], vec![0, 2]);
		mk(format!("C03-menu-{}-poisonable", k.short()), vec![Spec::PM(0), Spec::Pois(Box::new(Spec::Coll(k, vec![Spec::R(0), Spec::R(1)]))), Spec::R(0)], vec![0, 2]);
		mk(format!("C03-menu-{}-poisonable-member", k.short()), vec![Spec::Coll(k, vec![Spec::R(1), Spec::PR(0)]), Spec::PR(0)], vec![1]);
	}
	mk("C03-menu-native-a".into(), vec![Spec::Native(Native::OwnedTupMR), Spec::Native(Native::NewOW(Kind::Boxed, 0)), Spec::OW(0)], vec![2]);
	mk("C03-menu-native-b".into(), vec![Spec::Native(Native::RetryOwnedR(2)), Spec::Native(Native::BoxedTupRRP(0, 1, 0)), Spec::R(0)], vec![2]);
	mk("C03-menu-native-c".into(), vec![Spec::Native(Native::Arr3(Kind::Ref, [2, 0, 1])), Spec::Native(Native::TupMR(Kind::Retry, 0, 0)), Spec::Native(Native::Slice(Kind::Boxed, vec![1, 0])), Spec::R(0)], vec![3]);
	out
}

pub fn c10_programs(thorough: bool) -> Vec<Program> {
	let mut out = vec![];
	let ctl = |specs: &Vec<Spec>| -> Vec<MAct> {
		let mut v = vec![MAct::Get, MAct::DropKey, MAct::Unlock, MAct::DropGuard, MAct::PanicWithGuard];
		for (i, s) in specs.iter().enumerate() {
			if crate::menu::target_flag(s, i).is_some() {
				v.push(MAct::IsPoisoned { t: i });
				v.push(MAct::ClearPoison { t: i });
			}
		}
		v
	};
	let mut mk = |name: &str, specs: Vec<Spec>, b_targets: Vec<usize>| {
		let all: Vec<(usize, bool)> = specs.iter().enumerate().map(|(i, s)| (i, s.sharable())).collect();
		let mut a = ctl(&specs);
		a.extend(acq_actions(&all, true, true, true));
		let mut b = ctl(&specs);
		let bt: Vec<(usize, bool)> = b_targets.iter().map(|i| (*i, specs[*i].sharable())).collect();
		b.extend(acq_actions(&bt, thorough, thorough, true));
		out.push(program(name, specs, vec![MenuThread { actions: a, reacquire: false }, MenuThread { actions: b, reacquire: false }], Policy::RP));
	};
	mk("C10-menu-single", vec![Spec::PM(0), Spec::PR(0), Spec::M(1), Spec::R(2)], vec![0, 1]);
	mk("C10-menu-double", vec![Spec::PPM, Spec::PPR], vec![0, 1]);
	for k in crate::spec::KINDS {
		mk(&format!("C10-menu-member-{}", k.short()), vec![Spec::PR(0), Spec::Coll(k, vec![Spec::PR(0), Spec::R(2)]), Spec::R(2)], vec![0, 1]);
		mk(&format!("C10-menu-member-mutex-{}", k.short()), vec![Spec::PM(0), Spec::Coll(k, vec![Spec::M(1), Spec::PM(0)])], vec![0]);
		mk(&format!("C10-menu-wrapper-{}", k.short()), vec![Spec::Pois(Box::new(Spec::Coll(k, vec![Spec::R(1), Spec::R(0)]))), Spec::R(0)], vec![0, 1]);
		mk(&format!("C10-menu-wrapper-member-{}", k.short()), vec![Spec::Pois(Box::new(Spec::Coll(k, vec![Spec::PR(0), Spec::R(1)]))), Spec::PR(0)], vec![0, 1]);
		mk(&format!("C10-menu-nested-wrapper-{}", k.short()), vec![Spec::Coll(k, vec![Spec::Pois(Box::new(Spec::Coll(Kind::Boxed, vec![Spec::R(0)]))), Spec::R(1)]), Spec::R(0)], vec![0]);
	}
	mk("C10-menu-owned", vec![Spec::Native(Native::OwnedPoisR), Spec::Native(Native::PoisOwned(2)), Spec::Native(Native::BoxedTupRRP(0, 1, 0)), Spec::PR(0)], vec![0, 1, 2, 3]);
	out
}

fn run_menu(rep: &mut Report, progs: Vec<Program>, depth_cap: usize) {
	let cfg = menu_cfg(depth_cap, &rep.prop.clone());
	let t = std::time::Instant::now();
	// few programs with large alphabets: parallelise inside each program (level-synchronous BFS)
	let mut fr = crate::conc::FamRun { name: "menu".into(), programs: progs.len(), stats: Default::default(), found: vec![], machinery: vec![], contended_programs: 0, capped_programs: 0, sample: None };
	for (i, p) in progs.iter().enumerate() {
		let o = crate::explore::explore_bfs_par(p, &cfg, None);
		fr.stats.add(&o.stats);
		if o.stats.blocked_states > 0 {
			fr.contended_programs += 1;
		}
		if o.stats.cap_hit {
			fr.capped_programs += 1;
		}
		for f in o.found {
			fr.found.push((i, f));
		}
		if let Some(m) = o.machinery {
			fr.machinery.push(format!("{}: {}", p.name, m));
		}
		if fr.sample.as_ref().map(|(_, s)| s.len() < o.sample_schedule.len()).unwrap_or(true) && !o.sample_schedule.is_empty() {
			fr.sample = Some((i, o.sample_schedule));
		}
	}
	eprintln!("  menu search: programs={} states={} transitions={} execs={} found={} depth_cap_hits={} max_depth={} [{:.1}s]", fr.programs, fr.stats.states, fr.stats.transitions, fr.stats.executions, fr.found.len(), fr.stats.depth_cap_hits, fr.stats.max_depth, t.elapsed().as_secs_f64());
	let hits = fr.stats.depth_cap_hits;
	for (i, p) in progs.iter().enumerate() {
		if i < 3 {
			rep.sample(json!({"menu_program": p.name, "targets": p.specs.iter().map(|s| s.describe()).collect::<Vec<_>>(), "alphabet_thread0": p.menu[0].actions.iter().map(|a| a.kind()).collect::<std::collections::BTreeSet<_>>(), "alphabet_size_thread0": p.menu[0].actions.len(), "alphabet_size_thread1": p.menu[1].actions.len()}));
		}
	}
	absorb(rep, &progs, &cfg, fr);
	rep.set("depth_cap", depth_cap as u64);
	rep.set("states_cut_by_depth_cap", hits);
	if hits > 0 {
		rep.exhaustive = false;
		rep.notes.push(format!("{} states at depth {} were not expanded (depth cap); the closure is complete below that depth", hits, depth_cap));
	} else {
		rep.notes.push("fixpoint reached: no state was cut by the depth cap".into());
	}
}

pub fn check_c06(tier: &str) -> ! {
	let mut rep = Report::new("C06", tier, "model_checking");
	crate::conc::common_assumptions(&mut rep);
	run_menu(&mut rep, c06_programs(true), 0);
	let _ = tier;
	// "keys of different threads are independent": no key-carrying value may cross to another thread at all
	// the key accounting also holds when a call ends because a raw lock operation panicked
	crate::faults::c06_key_after_fault(&mut rep);
	crate::corpus::run_route("send-", "C06", &mut rep);
	crate::corpus::run_route("share-key-", "C06", &mut rep);
	rep.set("rule", format!("{}; C06 oracle: after every step ThreadKey::get() (dropped again when Some) succeeds iff the per-thread key model says Free; inside every closure it fails; compile-time clause: every public key-carrying type (key, guards, key-returning errors, over raw locks with sendable guards too) is rejected as Send by rustc, each next to a compiling twin", menu_rule()));
	rep.finish()
}

pub fn check_c03(tier: &str) -> ! {
	let mut rep = Report::new("C03", tier, "model_checking");
	crate::conc::common_assumptions(&mut rep);
	run_menu(&mut rep, c03_programs(tier == "thorough"), 0);
	// an API that hands the key back while the call still holds something is this property's failure, whichever
	// neighbouring property's oracle noticed it first (those oracles end the path, so C03's own never runs)
	let mine = |v: &crate::report::Viol| ["failed-try-holds|", "leak-after-drop|", "leak-after-user-panic|", "blocking-returned-wouldblock|"].iter().any(|p| v.key.starts_with(p));
	let moved: Vec<crate::report::Viol> = rep.xrefs.iter().filter(|v| mine(v)).cloned().collect();
	rep.xrefs.retain(|v| !mine(v));
	for mut v in moved {
		v.key = format!("key-back-while-holding:{}:{}", v.prop, v.key);
		v.prop = "C03".into();
		rep.violation(v);
	}
	// "scoped call returned or unwound": also when it unwinds inside a destructor during an earlier unwind
	crate::seqchecks::nested_unwind_sweep(&mut rep, tier == "thorough", "C03");
	// (a) at the first raw op of every acquisition in every explored concurrent execution
	let mut crep = Report::new("C03", tier, "model_checking");
	crate::conc::core_families(&mut crep, tier == "thorough");
	for k in ["programs", "states", "transitions", "traces_validated_against_impl", "executions"] {
		rep.add(k, crep.get(k));
	}
	if let Some(f) = crep.coverage.get("families").cloned() {
		let fams = rep.coverage.entry("families".into()).or_insert_with(|| json!([]));
		fams.as_array_mut().unwrap().extend(f.as_array().cloned().unwrap_or_default());
	}
	for v in crep.violations.drain(..).chain(crep.xrefs.drain(..)) {
		rep.violation(v);
	}
	rep.machinery.extend(crep.machinery);
	rep.set("rule", format!("{}; C03 oracle: (a) at the first raw operation of every acquiring call (also in every concurrent execution of the core families) the caller holds nothing; (b) whenever an API hands the key back the caller holds nothing; (c) right afterwards try_* of the very same (free) target with that key succeeds; (d) no blocking raw op on a lock the caller holds", menu_rule()));
	rep.finish()
}

pub fn c11_menu(rep: &mut Report, thorough: bool) {
	let mut progs = c10_programs(false);
	progs.extend(c03_programs(false));
	run_menu(rep, progs, 0);
	let _ = thorough;
}

pub fn c10_menu(rep: &mut Report, tier: &str) {
	run_menu(rep, c10_programs(tier == "thorough"), 0);
}

pub fn check_c10(tier: &str) -> ! {
	let mut rep = Report::new("C10", tier, "model_checking");
	crate::conc::common_assumptions(&mut rep);
	rep.assumptions.push("poison model = the property statement: must-be-true after a panic unwound during an exclusive hold (any route) since creation / last clear_poison; must-be-false while no panic happened since then; unconstrained otherwise (panic during a shared hold, clear_poison racing with a panic in flight)".into());
	c10_menu(&mut rep, tier);
	// concurrent part: all interleavings at raw-operation granularity
	let progs = crate::families::fam_poison(tier == "thorough");
	let cfg = Cfg { verdict_props: vec!["C10".into()], post_release_points: true, ..Cfg::default() };
	let t = std::time::Instant::now();
	let fr = run_family("P", &progs, &cfg);
	eprintln!("  family P programs={} states={} transitions={} found={} [{:.1}s]", fr.programs, fr.stats.states, fr.stats.transitions, fr.found.len(), t.elapsed().as_secs_f64());
	absorb(&mut rep, &progs, &cfg, fr);
	rep.set("rule", format!("{}; C10 oracle: is_poisoned() and the Ok/Err of every acquisition (including each member's result inside collection guards and closure arguments) agree with the poison model whenever it is constrained; a poisoned acquisition holds exactly the target's leaves and its guard reaches the payloads; clear_poison restores Ok. Family P: one thread panics inside a hold covering a Poisonable while another acquires / queries / clears it, all interleavings at raw-operation granularity", menu_rule()));
	rep.finish()
}
