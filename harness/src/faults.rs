//! C12: exhaustive raw-operation fault enumeration. For every case, one fault-free run counts
//! the raw operations N of the call; then N runs inject a panic *instead of* operation k.

use std::collections::BTreeSet;
use std::panic::{catch_unwind, AssertUnwindSafe};

use happylock::lockable::RawLock;
use happylock::ThreadKey;
use serde_json::json;

use crate::interp::{self, Body, Flavour};
use crate::report::{Report, Viol};
use crate::rt::{self, Act, FaultSpec, Mode, Policy, Violation};
use crate::seq::{self, par_cases};
use crate::seqchecks::{apply_assignment, assignments, probe_specs, SpecInfo};
use crate::spec::{Kind, Native, Spec, World, KINDS};
use crate::world::*;

#[derive(Clone, Debug, serde::Serialize, serde::Deserialize)]
pub struct FaultCase {
	pub spec: Spec,
	pub assign: Vec<u8>,
	pub flavour: Flavour,
	pub write: bool,
	pub fault: Option<FaultSpec>,
	/// hand-over pattern: at environment step n another thread takes leaf `position` (index into the target's leaves)
	#[serde(default)]
	pub env_script: Vec<Option<(usize, bool)>>,
	/// every Poisonable under the target was poisoned beforehand (a panic under the target's guard)
	#[serde(default)]
	pub poisoned: bool,
	/// the call is made by a destructor that runs while the thread unwinds from an unrelated panic (and catches the
	/// call's own panic): `std::thread::panicking()` is true throughout the call
	#[serde(default)]
	pub in_unwind: bool,
}

pub struct FaultOut {
	pub violations: Vec<Violation>,
	pub raw_ops: usize,
	pub fired: Vec<(usize, rt::RawOp)>,
	pub outcome: String,
	pub call_panicked: bool,
	pub trace: Vec<String>,
}

/// Find the raw lock object of an arena leaf (for the post-mortem probes).
fn leaf_lock<'w>(w: &World<'w>, leaf: u32) -> Option<&'w dyn RawLock> {
	let a = w.arena;
	Some(if leaf < M0 {
		&a.r[(leaf - R0) as usize]
	} else if leaf < PM0 {
		&a.m[(leaf - M0) as usize]
	} else if leaf < PR0 {
		&a.pm[(leaf - PM0) as usize]
	} else if leaf < OW0 {
		&a.pr[(leaf - PR0) as usize]
	} else {
		return None;
	})
}

pub fn run_fault_case(c: &FaultCase, keep_trace: bool) -> FaultOut {
	let o = seq::case(Policy::RP, keep_trace, |w, ctl| {
		let t = w.build(&c.spec).expect("catalogue spec");
		ctl.init(w);
		if c.poisoned {
			let key = ThreadKey::get().expect("clean");
			let (key, _) = interp::acquire(&t, true, Flavour::Guard, Body::PANIC, key, 99);
			drop(key);
		}
		apply_assignment(ctl, &t.leaves, &c.assign);
		ctl.exec.lock().env_script = c.env_script.iter().map(|e| e.map(|(pos, excl)| (t.leaves[pos], if excl { Mode::Excl } else { Mode::Shared }))).collect();
		let foreign_before: Vec<(u32, (Option<usize>, Vec<usize>))> = t.leaves.iter().map(|l| (*l, ctl.holder(*l))).collect();
		let key = ThreadKey::get().expect("clean");
		match &c.fault {
			Some(f) => ctl.arm_fault(f.clone()),
			None => ctl.arm_counting(),
		}
		let r = if c.in_unwind {
			struct InDrop<'a, F: FnOnce() -> (ThreadKey, bool)> {
				f: Option<F>,
				out: &'a std::cell::RefCell<Option<std::thread::Result<(ThreadKey, bool)>>>,
			}
			impl<F: FnOnce() -> (ThreadKey, bool)> Drop for InDrop<'_, F> {
				fn drop(&mut self) {
					rt::FAULT_IN_UNWIND_OK.with(|x| x.set(true));
					let r = catch_unwind(AssertUnwindSafe(self.f.take().unwrap()));
					rt::FAULT_IN_UNWIND_OK.with(|x| x.set(false));
					*self.out.borrow_mut() = Some(r);
				}
			}
			let out = std::cell::RefCell::new(None);
			let outer = catch_unwind(AssertUnwindSafe(|| {
				let _d = InDrop { f: Some(|| interp::acquire(&t, c.write, c.flavour, Body::NONE, key, 1)), out: &out };
				std::panic::resume_unwind(Box::new(rt::UserPanic(31337)));
			}));
			assert!(outer.is_err());
			out.into_inner().expect("the destructor ran")
		} else {
			catch_unwind(AssertUnwindSafe(|| interp::acquire(&t, c.write, c.flavour, Body::NONE, key, 1)))
		};
		let n = ctl.disarm();
		rt::end_call();
		let fired = ctl.exec.lock().faults_fired.clone();
		let panicked = r.is_err();
		if let Err(p) = &r {
			rt::note(format!("call ended with {}", rt::classify_panic(p)));
		}
		drop(r);
		let w_ = interp::what(&t, c.flavour.api(c.write));
		// the call has ended (normally or by unwinding) and owns no key any more: the thread's key is obtainable (C06)
		if !seq::key_clean() {
			let on = fired.first().map(|f| format!("{:?}", f.1.act).to_lowercase()).unwrap_or_else(|| "none".into());
			rt::violation("C06", format!("key-lost-after-raw-fault|{}|fault-on-{}", rt::what_key(&w_), on), format!("after `{}` ended ({}) no key is alive on this thread, yet ThreadKey::get() returns None", w_, if panicked { "by unwinding from a raw-operation panic" } else { "normally" }));
		}
		if !fired.is_empty() {
			let (_, fop) = fired[0];
			let one_shot = matches!(c.fault, Some(FaultSpec::OneShot { .. }));
			let opk = format!("{:?}", fop.act).to_lowercase();
			if !panicked {
				rt::violation("C12", format!("fault-swallowed|{}|fault-on-{}", rt::what_key(&w_), opk), format!("raw {} panicked during `{}` but the call returned normally", fop.short(), w_));
			}
			// every other lock: not held by the caller any more
			let held = ctl.exec.lock().held(0);
			for (l, m) in &held {
				let own_release_faulted = fired.iter().any(|(_, o)| o.lock == *l && o.act == Act::Unlock);
				if !own_release_faulted {
					rt::violation("C12", format!("leak-after-raw-fault|{}|fault-on-{}", rt::what_key(&w_), opk), format!("after raw {} panicked during `{}` (leaf states {:?}) the caller still holds L{} ({:?}) whose release did not panic", fop.short(), w_, c.assign, l, m));
				}
			}
			// foreign holders untouched unless the environment rule released them
			for (l, (e, s)) in &foreign_before {
				let now = ctl.holder(*l);
				let env_released = ctl.exec.lock().trace.iter().any(|ev| matches!(&ev.what, rt::EvKind::Env { lock, .. } if lock == l));
				if (now.0 != *e && e.is_some() && now.0.is_none() || now.1.len() < s.len()) && !env_released && !keep_trace {
					// (with tracing off we cannot see env events; the audit below still catches foreign releases)
				}
			}
			// usability probes (arena leaves only)
			ctl.release_foreign();
			// a lock whose own release panicked is still recorded as held (the fault replaced the operation);
			// whether or not a real raw lock had released before panicking, the lock must be dead afterwards:
			// clear the stale hold so that the probes below can ask
			{
				let mut g = ctl.exec.lock();
				for (_, o) in &fired {
					if o.act == Act::Unlock {
						let l = &mut g.locks[o.lock as usize];
						if l.excl == Some(0) {
							l.excl = None;
						}
						l.shared.retain(|t| *t != 0);
					}
				}
			}
			for l in &t.leaves {
				let Some(lock) = leaf_lock(w, *l) else { continue };
				let faulted_here = fired.iter().any(|(_, o)| o.lock == *l);
				match ctl.probe_killed(lock, *l) {
					Some(killed) => {
						if faulted_here && !killed {
							rt::violation("C12", format!("faulted-lock-usable|{}|fault-on-{}", rt::what_key(&w_), opk), format!("raw {} panicked during `{}` but L{} still accepts try acquisitions afterwards", fop.short(), w_, l));
						}
						if faulted_here && killed {
							// blocking acquisition must panic rather than acquire
							let r = catch_unwind(AssertUnwindSafe(|| unsafe { lock.raw_write() }));
							if r.is_ok() {
								unsafe { lock.raw_unlock_write() };
								rt::violation("C12", format!("faulted-lock-blocking-usable|{}|fault-on-{}", rt::what_key(&w_), opk), format!("L{} is killed for try but a blocking acquisition succeeded", l));
							}
							// ... and the shared entry points refuse as well
							rt::begin_call(rt::CallKind::None, false, "probe-read".into());
							let ok = unsafe { lock.raw_try_read() };
							if ok {
								unsafe { lock.raw_unlock_read() };
							}
							rt::end_call();
							if ok {
								rt::violation("C12", format!("faulted-lock-read-usable|{}|fault-on-{}", rt::what_key(&w_), opk), format!("L{} is killed for exclusive try but a shared try acquisition succeeded", l));
							}
							let r = catch_unwind(AssertUnwindSafe(|| unsafe { lock.raw_read() }));
							if r.is_ok() {
								unsafe { lock.raw_unlock_read() };
								rt::violation("C12", format!("faulted-lock-blocking-read-usable|{}|fault-on-{}", rt::what_key(&w_), opk), format!("L{} is killed for try but a blocking shared acquisition succeeded", l));
							}
						}
						if !faulted_here && killed && one_shot {
							rt::violation("C12", format!("healthy-lock-killed|{}|fault-on-{}", rt::what_key(&w_), opk), format!("raw {} panicked during `{}` and afterwards the unrelated L{} refuses acquisition", fop.short(), w_, l));
						}
					}
					None => {}
				}
			}

			// the whole target again, now that one of its locks is dead: a try must fail and a blocking
			// acquisition must refuse by panicking, and neither may keep any of the healthy members
			let some_killed = t.leaves.iter().any(|l| fired.iter().any(|(_, o)| o.lock == *l)) && t.leaves.iter().all(|l| leaf_lock(w, *l).is_some());
			if some_killed && ctl.exec.lock().locks.iter().all(|l| l.is_free()) {
				for fl in [Flavour::Try, Flavour::ScopedTryLent, Flavour::Guard, Flavour::ScopedLent] {
					let Some(key) = ThreadKey::get() else { break };
					let r = catch_unwind(AssertUnwindSafe(|| interp::acquire(&t, c.write, fl, Body::NONE, key, 2)));
					rt::end_call();
					let wk = interp::what(&t, fl.api(c.write));
					match r {
						Ok((k, ok)) => {
							drop(k);
							if ok {
								rt::violation("C12", format!("target-with-dead-lock-acquired|{}|fault-on-{}", rt::what_key(&wk), opk), format!("after raw {} panicked during `{}`, `{}` acquired the target although one of its locks is dead", fop.short(), w_, wk));
							}
						}
						Err(p) => {
							if !fl.is_try() && rt::classify_panic(&p).contains("has been killed") {
								// refused by panicking: fine
							} else {
								rt::violation("C12", format!("target-with-dead-lock-panic|{}|fault-on-{}", rt::what_key(&wk), opk), format!("`{}` on a target with a dead lock ended with {}", wk, rt::classify_panic(&p)));
							}
						}
					}
					let held = ctl.exec.lock().held(0);
					if !held.is_empty() {
						rt::violation("C12", format!("dead-lock-refusal-keeps-holds|{}|fault-on-{}", rt::what_key(&wk), opk), format!("`{}` refused a target containing a dead lock but keeps {:?}", wk, held));
						let mut g = ctl.exec.lock();
						for l in g.locks.iter_mut() {
							if l.excl == Some(0) {
								l.excl = None;
							}
							l.shared.retain(|t| *t != 0);
						}
					}
				}
			}
		}
		n
	});
	let mut violations: Vec<Violation> = vec![];
	for v in o.violations {
		if v.prop == "C05" {
			// the audit: a release the caller was not entitled to
			let fired_kind = o.faults_fired.first().map(|f| format!("{:?}", f.1.act).to_lowercase()).unwrap_or_else(|| "none".into());
			violations.push(Violation { prop: "C12", key: format!("bad-release-after-raw-fault|{}|fault-on-{}", v.key, fired_kind), detail: v.detail });
		} else if v.prop == "C12" || v.prop == "C06" {
			violations.push(v);
		} else if o.faults_fired.is_empty() {
			violations.push(v);
		}
	}
	if o.outcome != "ok" {
		violations.push(Violation { prop: "C12", key: format!("harness-{}|{}", o.outcome.split(':').next().unwrap(), c.spec.shape_key()), detail: format!("fault case ended with {}: {:?}", o.outcome, c) });
	}
	FaultOut { violations, raw_ops: o.value.unwrap_or(0), fired: o.faults_fired, outcome: o.outcome, call_panicked: false, trace: o.trace }
}

pub fn c12_specs(thorough: bool) -> Vec<Spec> {
	let mut out = vec![Spec::R(0), Spec::M(0), Spec::PR(0), Spec::PM(0)];
	let max = if thorough { 4 } else { 3 };
	for k in KINDS {
		for n in 1..=max {
			// rwlock lists: identity and reversed arrangement (the sorting collections lock in address order anyway)
			let id: Vec<Spec> = (0..n).map(Spec::R).collect();
			out.push(Spec::Coll(k, id.clone()));
			if n >= 2 {
				let mut rev = id.clone();
				rev.reverse();
				out.push(Spec::Coll(k, rev));
			}
			if n <= 3 {
				let ms: Vec<Spec> = (0..n).map(Spec::M).collect();
				out.push(Spec::Coll(k, ms));
			}
		}
		out.push(Spec::Coll(k, vec![Spec::M(0), Spec::R(0), Spec::PM(0)]));
		out.push(Spec::Coll(k, vec![Spec::PR(0), Spec::R(1)]));
		if thorough {
			for k2 in KINDS {
				out.push(Spec::Coll(k, vec![Spec::Coll(k2, vec![Spec::R(2), Spec::R(0)]), Spec::R(1)]));
				out.push(Spec::Pois(Box::new(Spec::Coll(k, vec![Spec::Coll(k2, vec![Spec::R(1)]), Spec::R(0)]))));
			}
		}
		out.push(Spec::Pois(Box::new(Spec::Coll(k, vec![Spec::R(1), Spec::R(0)]))));
	}
	// owned: arena unit (2 leaves) directly and through references
	out.push(Spec::OW(0));
	out.push(Spec::Native(Native::NewOW(Kind::Boxed, 0)));
	out.push(Spec::Native(Native::NewOW(Kind::Retry, 0)));
	out.push(Spec::Coll(Kind::Boxed, vec![Spec::OW(0), Spec::R(0)]));
	out.push(Spec::Coll(Kind::Retry, vec![Spec::R(0), Spec::OW(0)]));
	// native container shapes: tuples (3 members, each collection kind; 5 for the sorted kind), `&mut` members
	for which in 0..4u8 {
		out.push(Spec::Native(Native::TupN(which, 3)));
		out.push(Spec::Native(Native::MutRefs(which, 2)));
	}
	if thorough {
		out.push(Spec::Native(Native::TupN(0, 5)));
		out.push(Spec::Native(Native::Arr3(Kind::Retry, [2, 0, 1])));
		out.push(Spec::Native(Native::Slice(Kind::Ref, vec![1, 0])));
	}
	out
}

pub fn check_c12(tier: &str) -> ! {
	let mut rep = Report::new("C12", tier, "fault_enumeration");
	crate::seqchecks::seq_assumptions(&mut rep);
	rep.assumptions.push("a raw-operation fault is a panic raised instead of the operation's effect (the convention of the repository's tests/evil_*.rs)".into());
	let specs = c12_specs(true);
	let infos: Vec<Option<SpecInfo>> = probe_specs(&specs);
	let flavours = [Flavour::Guard, Flavour::GuardUnlock, Flavour::Try, Flavour::ScopedLent, Flavour::ScopedOwned, Flavour::ScopedTryLent, Flavour::ScopedTryOwned];
	// baseline cases
	let mut base: Vec<FaultCase> = vec![];
	for (s, info) in specs.iter().zip(&infos) {
		let Some(info) = info else { continue };
		let mut asg = assignments(info);
		if info.leaves.len() >= 4 {
			// at most one pre-held member for size 4 (each position, each mode) plus the free pattern
			asg.retain(|a| a.iter().filter(|v| **v != 0).count() <= 1);
		}
		for a in asg {
			for f in flavours {

				for write in [true, false] {
					if !write && !info.sharable {
						continue;
					}
					base.push(FaultCase { spec: s.clone(), assign: a.clone(), flavour: f, write, fault: None, env_script: vec![], poisoned: false, in_unwind: false });
					if crate::seqchecks::has_poisonable(s) {
						base.push(FaultCase { spec: s.clone(), assign: a.clone(), flavour: f, write, fault: None, env_script: vec![], poisoned: true, in_unwind: false });
					}
					// hand-over patterns for blocking calls that will have to wait: while the subject is blocked,
					// another thread takes one more leaf (at the first or at the second wait)
					if !f.is_try() && a.iter().any(|v| *v != 0) && info.leaves.len() >= 2 && info.leaves.len() <= 3 {
						for step in 0..2usize {
							for pos in 0..info.leaves.len() {
								for excl in [true, false] {
									if !excl && !info.is_rw[pos] {
										continue;
									}
									let mut script = vec![None; step];
									script.push(Some((pos, excl)));
									base.push(FaultCase { spec: s.clone(), assign: a.clone(), flavour: f, write, fault: None, env_script: script, poisoned: false, in_unwind: false });
								}
							}
						}
					}
				}
			}
		}
	}
	let base_out = par_cases(&base, |_, c| run_fault_case(c, false));
	let mut cases: Vec<FaultCase> = vec![];
	for (c, o) in base.iter().zip(&base_out) {
		rep.add("baseline_runs", 1);
		for v in &o.violations {
			rep.violation(Viol { prop: v.prop.to_string(), key: v.key.clone(), detail: v.detail.clone(), replay: json!({"kind": "seq-fault", "case": c}) });
		}
		for k in 0..o.raw_ops {
			let mut fc = c.clone();
			fc.fault = Some(FaultSpec::OneShot { index: k });
			cases.push(fc);
			// the same one-shot fault when the call is made from a destructor during an unrelated unwind (nothing
			// pre-held, no hand-over: the fault-free run is the same, so the operation count is too)
			if c.env_script.is_empty() && !c.poisoned && c.assign.iter().all(|v| *v == 0) {
				let mut fc = c.clone();
				fc.fault = Some(FaultSpec::OneShot { index: k });
				fc.in_unwind = true;
				cases.push(fc);
			}
		}
	}
	// persistent faults as in tests/evil_*.rs: a lock whose lock / try / unlock always panics, at every member position
	for (s, info) in specs.iter().zip(&infos) {
		let Some(info) = info else { continue };
		if info.leaves.len() > 3 {
			continue;
		}
		for l in &info.leaves {
			for (on_lock, on_try, on_unlock) in [(true, false, false), (false, true, false), (false, false, true), (true, false, true), (true, true, true)] {
				for f in [Flavour::Guard, Flavour::Try, Flavour::ScopedLent, Flavour::ScopedTryLent] {
					for write in [true, false] {
						if !write && !info.sharable {
							continue;
						}
						cases.push(FaultCase { spec: s.clone(), assign: vec![0; info.leaves.len()], flavour: f, write, fault: Some(FaultSpec::Persistent { lock: *l, on_lock, on_try, on_unlock }), env_script: vec![], poisoned: false, in_unwind: false });
					}
				}
			}
		}
	}
	let outs = par_cases(&cases, |_, c| run_fault_case(c, false));
	let mut distinct = BTreeSet::new();
	for (c, o) in cases.iter().zip(&outs) {
		rep.add("evaluations", 1);
		if !o.fired.is_empty() {
			rep.add("runs_in_which_the_fault_fired", 1);
			if c.in_unwind {
				rep.add("faults_fired_inside_a_destructor_during_an_unwind", 1);
			}
			distinct.insert((c.spec.clone(), c.assign.clone(), c.flavour, c.write, c.poisoned, c.in_unwind, c.env_script.clone(), o.fired[0].1.lock, o.fired[0].1.act as u8, o.fired[0].0));
		}
		for v in &o.violations {
			rep.violation(Viol { prop: v.prop.to_string(), key: v.key.clone(), detail: v.detail.clone(), replay: json!({"kind": "seq-fault", "case": c}) });
		}
	}
	rep.set("distinct_nontrivial", distinct.len() as u64);
	rep.set("shapes", specs.len() as u64);
	if let Some((c, o)) = cases.iter().zip(&outs).find(|(c, o)| !o.fired.is_empty() && c.assign.iter().any(|v| *v != 0) && c.assign.len() == 3) {
		rep.sample(json!({"spec": c.spec.describe(), "api": c.flavour.api(c.write), "pre_held_leaf_states": c.assign, "fault": c.fault, "faulted_op": o.fired[0].1.short()}));
	}
	if let Some((c, o)) = cases.iter().zip(&outs).rev().find(|(c, o)| !o.fired.is_empty() && matches!(c.fault, Some(FaultSpec::Persistent { .. }))) {
		rep.sample(json!({"spec": c.spec.describe(), "api": c.flavour.api(c.write), "fault": c.fault, "first_faulted_op": o.fired[0].1.short()}));
	}
	rep.set("rule", "for every (shape x mode x API in {lock+drop, lock+unlock, try_lock+drop, scoped_* with lent/owned key, scoped_try_*} x pre-held pattern): one fault-free run counts the raw operations N, then N runs panic instead of raw operation k (k=0..N-1); plus the one-shot faults again with the call made by a destructor that runs during an unrelated unwind (thread::panicking() true throughout; nothing pre-held); plus persistent per-lock faults (lock / try / unlock / combinations always panic) at every member position. Oracle: the call does not return normally; no lock other than one whose own release panicked stays held by the caller; no release is issued for a lock the caller does not hold (owner-table audit); the faulted lock refuses try and panics on blocking acquisition afterwards; no other lock is killed by a one-shot fault. Non-trivial = distinct (case, faulted operation) pairs in which the fault actually fired");
	let _ = Mode::Excl;
	rep.finish()
}

/// C06 under raw-operation faults: whatever way a call ends, the key accounting holds (a guard consumed by an
/// `unlock*` function whose raw release panics has dropped its key; a scoped call given an owned key has, too).
/// The one-shot fault enumeration over a small shape set, for the neighbouring properties that need a raw panic to
/// show: C06 (the key is obtainable after the call ended) and C05 (no release the caller is not entitled to).
pub fn small_fault_sweep(rep: &mut Report, prop: &str) {
	let mut specs = vec![Spec::R(0), Spec::M(0), Spec::PR(0), Spec::PM(0), Spec::OW(0), Spec::Native(Native::OwnedTupMR)];
	for k in KINDS {
		specs.push(Spec::Coll(k, vec![Spec::R(1), Spec::M(0)]));
		specs.push(Spec::Pois(Box::new(Spec::Coll(k, vec![Spec::R(1), Spec::R(0)]))));
	}
	let infos: Vec<Option<SpecInfo>> = probe_specs(&specs);
	let mut base = vec![];
	for (s, info) in specs.iter().zip(&infos) {
		let Some(info) = info else { continue };
		for f in crate::interp::FLAVOURS {
			for write in [true, false] {
				if !write && !info.sharable {
					continue;
				}
				base.push(FaultCase { spec: s.clone(), assign: vec![0; info.leaves.len()], flavour: f, write, fault: None, env_script: vec![], poisoned: false, in_unwind: false });
			}
		}
	}
	let base_out = par_cases(&base, |_, c| run_fault_case(c, false));
	let mut cases = vec![];
	for (c, o) in base.iter().zip(&base_out) {
		for k in 0..o.raw_ops {
			let mut fc = c.clone();
			fc.fault = Some(FaultSpec::OneShot { index: k });
			cases.push(fc);
		}
	}
	let outs = par_cases(&cases, |_, c| run_fault_case(c, false));
	for (c, o) in base.iter().zip(&base_out).chain(cases.iter().zip(&outs)) {
		rep.add(if prop == "C06" { "key_accounting_under_raw_faults_cases" } else { "release_audit_under_raw_faults_cases" }, 1);
		for v in &o.violations {
			if prop == "C06" && v.prop == "C06" {
				rep.violation(Viol { prop: "C06".into(), key: v.key.clone(), detail: v.detail.clone(), replay: json!({"kind": "seq-fault", "case": c}) });
			}
			if prop == "C05" && v.prop == "C12" {
				if let Some(rest) = v.key.strip_prefix("bad-release-after-raw-fault|") {
					rep.violation(Viol { prop: "C05".into(), key: format!("after-raw-fault:{}", rest), detail: v.detail.clone(), replay: json!({"kind": "seq-fault", "case": c}) });
				}
			}
		}
	}
}

/// C09 under raw faults: a retrying acquisition that has to back off (a later member is held by another thread,
/// who releases once the caller blocks) while one raw operation panics once. When the call has ended, nothing it
/// took may stay locked (except a lock whose own release panicked): otherwise the next acquisition over those
/// members never completes.
pub fn retry_fault_sweep(rep: &mut Report) {
	let specs = vec![
		Spec::Coll(Kind::Retry, vec![Spec::R(0), Spec::R(1), Spec::R(2)]),
		Spec::Coll(Kind::Retry, vec![Spec::M(0), Spec::R(0), Spec::M(1)]),
		Spec::Coll(Kind::Retry, vec![Spec::R(2), Spec::R(0)]),
		Spec::Coll(Kind::Retry, vec![Spec::Coll(Kind::Boxed, vec![Spec::R(1), Spec::R(0)]), Spec::R(2)]),
		Spec::Coll(Kind::Boxed, vec![Spec::Coll(Kind::Retry, vec![Spec::R(2), Spec::R(0)]), Spec::R(1)]),
		Spec::Pois(Box::new(Spec::Coll(Kind::Retry, vec![Spec::R(0), Spec::R(1)]))),
	];
	let infos: Vec<Option<SpecInfo>> = probe_specs(&specs);
	let mut base = vec![];
	for (s, info) in specs.iter().zip(&infos) {
		let Some(info) = info else { continue };
		for pos in 1..info.leaves.len() {
			for held in [1u8, 2] {
				if held == 1 && !info.is_rw[pos] {
					continue;
				}
				let mut assign = vec![0u8; info.leaves.len()];
				assign[pos] = held;
				for f in [Flavour::Guard, Flavour::ScopedLent, Flavour::ScopedOwned] {
					for write in [true, false] {
						if (!write && !info.sharable) || (!write && held == 1) {
							continue;
						}
						base.push(FaultCase { spec: s.clone(), assign: assign.clone(), flavour: f, write, fault: None, env_script: vec![], poisoned: false, in_unwind: false });
					}
				}
			}
		}
	}
	let base_out = par_cases(&base, |_, c| run_fault_case(c, false));
	let mut cases = vec![];
	for (c, o) in base.iter().zip(&base_out) {
		for k in 0..o.raw_ops {
			let mut fc = c.clone();
			fc.fault = Some(FaultSpec::OneShot { index: k });
			cases.push(fc);
		}
	}
	let outs = par_cases(&cases, |_, c| run_fault_case(c, false));
	for (c, o) in base.iter().zip(&base_out).chain(cases.iter().zip(&outs)) {
		rep.add("back_off_under_raw_fault_cases", 1);
		for v in &o.violations {
			if v.prop == "C12" && v.key.starts_with("leak-after-raw-fault|") {
				rep.violation(Viol { prop: "C09".into(), key: format!("back-off-{}", v.key), detail: v.detail.clone(), replay: json!({"kind": "seq-fault", "case": c}) });
			}
		}
	}
}

pub fn c06_key_after_fault(rep: &mut Report) {
	small_fault_sweep(rep, "C06")
}
