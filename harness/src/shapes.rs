//! The shape catalogue for the sequential sweeps: every collection kind, sizes 0..max,
//! every arrangement, nesting depth <= 2, Poisonable inside and outside, native containers.

use crate::families::perms;
use crate::spec::{Kind, Native, Spec, KINDS};

pub fn singles() -> Vec<Spec> {
	vec![Spec::R(0), Spec::M(0), Spec::PR(0), Spec::PM(0), Spec::OW(0), Spec::PPM, Spec::PPR]
}

pub fn flat(max: usize) -> Vec<Spec> {
	let mut out = vec![];
	let max = max.min(crate::world::NR);
	for k in KINDS {
		for n in 0..=max {
			for p in perms(n) {
				out.push(Spec::Coll(k, p.iter().map(|i| Spec::R(*i)).collect()));
			}
		}
	}
	out
}

pub fn flat_mixed() -> Vec<Spec> {
	let mut out = vec![];
	let lists: Vec<Vec<Spec>> = vec![
		vec![Spec::M(0)],
		vec![Spec::M(1), Spec::M(0)],
		vec![Spec::M(0), Spec::R(0)],
		vec![Spec::R(1), Spec::M(0), Spec::R(0)],
		vec![Spec::PM(0), Spec::M(0)],
		vec![Spec::R(0), Spec::PM(1), Spec::PR(0)],
		vec![Spec::PR(1), Spec::R(2), Spec::PR(0)],
		vec![Spec::PPM, Spec::M(2)],
		vec![Spec::R(0), Spec::PPR],
	];
	for k in KINDS {
		for l in &lists {
			out.push(Spec::Coll(k, l.clone()));
		}
	}
	out
}

pub fn nested() -> Vec<Spec> {
	let mut out = vec![];
	let r = |i| Spec::R(i);
	for k in KINDS {
		for k2 in KINDS {
			let inner_a = Spec::Coll(k2, vec![r(2), r(0)]);
			let inner_b = Spec::Coll(k2, vec![r(0), r(2)]);
			out.push(Spec::Coll(k, vec![inner_a.clone(), r(1)]));
			out.push(Spec::Coll(k, vec![r(1), inner_a.clone()]));
			out.push(Spec::Coll(k, vec![inner_b.clone(), r(1)]));
			out.push(Spec::Coll(k, vec![r(3), inner_b.clone(), r(1)]));
			out.push(Spec::Coll(k, vec![Spec::Coll(k2, vec![]), r(1)]));
			out.push(Spec::Coll(k, vec![Spec::Coll(k2, vec![r(0)]), Spec::Coll(k2, vec![r(2), r(1)])]));
			// exclusive-only nesting
			out.push(Spec::Coll(k, vec![Spec::Coll(k2, vec![Spec::M(1), r(0)]), Spec::M(0)]));
			// poisonable around the inner collection
			out.push(Spec::Coll(k, vec![Spec::Pois(Box::new(inner_a.clone())), r(1)]));
			out.push(Spec::Pois(Box::new(Spec::Coll(k, vec![inner_a.clone(), r(1)]))));
		}
		out.push(Spec::Coll(k, vec![Spec::OW(0), r(0)]));
		out.push(Spec::Coll(k, vec![r(0), Spec::OW(0)]));
		out.push(Spec::Coll(k, vec![Spec::OW(1), r(1), Spec::OW(0)]));
		out.push(Spec::Coll(k, vec![Spec::OW(0), Spec::M(0)]));
		out.push(Spec::Pois(Box::new(Spec::Coll(k, vec![r(1), r(0)]))));
		out.push(Spec::Pois(Box::new(Spec::Coll(k, vec![Spec::M(0), r(0)]))));
		out.push(Spec::Pois(Box::new(Spec::Coll(k, vec![Spec::PR(0), r(0)]))));
		out.push(Spec::Pois(Box::new(Spec::Coll(k, vec![]))));
	}
	out
}

pub fn natives() -> Vec<Spec> {
	let mut out = vec![];
	for k in KINDS {
		out.push(Spec::Native(Native::Arr3(k, [0, 1, 2])));
		out.push(Spec::Native(Native::Arr3(k, [2, 0, 1])));
		out.push(Spec::Native(Native::Arr3Unchecked(k, [2, 0, 1])));
		out.push(Spec::Native(Native::Arr3Unchecked(k, [1, 2, 0])));
		out.push(Spec::Native(Native::TupMR(k, 0, 0)));
		out.push(Spec::Native(Native::Slice(k, vec![])));
		out.push(Spec::Native(Native::Slice(k, vec![1])));
		out.push(Spec::Native(Native::Slice(k, vec![3, 1, 2, 0])));
		out.push(Spec::Native(Native::NewOW(k, 0)));
		out.push(Spec::Native(Native::ZstAround(k, 2, 0)));
		out.push(Spec::Native(Native::VecsNew(k)));
		out.push(Spec::Native(Native::VecsRefs(k)));
		out.push(Spec::Native(Native::OwnedDescIn(k, 2)));
		out.push(Spec::Native(Native::OwnedDescRef(k, 2)));
		out.push(Spec::Native(Native::OwnedDescRef(k, 3)));
	}
	out.push(Spec::Native(Native::VecsFromRef));
	out.push(Spec::Native(Native::VecsOwnedBoxed(0)));
	for k in KINDS {
		out.push(Spec::Native(Native::ZstFront(k, true)));
	}
	out.push(Spec::Native(Native::BoxedTupVecs(vec![1, 0], vec![2, 0])));
	out.push(Spec::Native(Native::BoxedTupVecs(vec![], vec![])));
	out.push(Spec::Native(Native::BoxedTupRRP(1, 0, 0)));
	out.push(Spec::Native(Native::OwnedTupMR));
	out.push(Spec::Native(Native::OwnedArr3));
	for n in 0..=4 {
		out.push(Spec::Native(Native::OwnedSlice(n)));
		out.push(Spec::Native(Native::BoxedNewVec(n)));
		out.push(Spec::Native(Native::RetryNewVec(n)));
	}
	out.push(Spec::Native(Native::RetryNewArr3));
	for n in 0..=2 {
		out.push(Spec::Native(Native::OwnedRetryR(n)));
		out.push(Spec::Native(Native::BoxedOwnedR(n)));
		out.push(Spec::Native(Native::RetryOwnedR(n)));
		out.push(Spec::Native(Native::PoisOwned(n)));
	}
	out.push(Spec::Native(Native::OwnedPoisR));
	for which in 0..4u8 {
		for n in 0..=3 {
			out.push(Spec::Native(Native::MutRefs(which, n)));
		}
		for n in 1..=7 {
			out.push(Spec::Native(Native::TupN(which, n)));
		}
		if which < 3 {
			for via in [1u8, 2] {
				out.push(Spec::Native(Native::MutRefsVia(which, 2, via)));
				out.push(Spec::Native(Native::MutRefsVia(which, 3, via)));
			}
		}
		out.push(Spec::Native(Native::ZstOwned(which, true)));
		out.push(Spec::Native(Native::ZstOwned(which, false)));
	}
	out
}

pub fn catalogue(max_flat: usize) -> Vec<Spec> {
	let mut v = singles();
	v.extend(flat(max_flat));
	v.extend(flat_mixed());
	v.extend(nested());
	v.extend(natives());
	v
}

pub fn kind_of(s: &Spec) -> Option<Kind> {
	match s {
		Spec::Coll(k, _) => Some(*k),
		_ => None,
	}
}
