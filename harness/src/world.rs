//! The world of an execution: leaves (real happylock locks over the verification
//! raw locks), the shape catalogue, and type-erased handles (`Coll`, `Held`,
//! `Visit`) through which the interpreter drives the *unmodified* public API.

use std::cell::RefCell;
use std::fmt::Debug;
use std::sync::atomic::{AtomicU64, Ordering};

use happylock::collection::{BoxedLockCollection, LockGuard, OwnedLockCollection, RefLockCollection, RetryingLockCollection};
use happylock::lockable::{Lockable, RawLock, Sharable};
use happylock::mutex::{MutexGuard, MutexRef};
use happylock::poisonable::{PoisonError, PoisonGuard, PoisonRef, Poisonable, TryLockPoisonableError};
use happylock::rwlock::{RwLockReadGuard, RwLockReadRef, RwLockWriteGuard, RwLockWriteRef};
use happylock::ThreadKey;

use crate::rt::{self, VMutex, VRw};

pub type M = happylock::mutex::Mutex<Payload, VMutex>;
pub type R = happylock::rwlock::RwLock<Payload, VRw>;
pub type PM = Poisonable<M>;
pub type PR = Poisonable<R>;
pub type OW = OwnedLockCollection<Vec<R>>;

pub struct Payload {
	/// set at construction (or, for the shared-Vec shapes, once the address rank is known)
	pub leaf: u32,
	pub val: AtomicU64,
}
thread_local! {
	/// user code inside `Debug`: when set, formatting a payload on this thread panics (a `UserPanic`)
	pub static FMT_PANIC: std::cell::Cell<bool> = const { std::cell::Cell::new(false) };
}
impl Debug for Payload {
	fn fmt(&self, f: &mut std::fmt::Formatter<'_>) -> std::fmt::Result {
		if FMT_PANIC.with(|p| p.get()) {
			std::panic::resume_unwind(Box::new(rt::UserPanic(0xf07)));
		}
		write!(f, "P{}={}", self.leaf, self.val.load(Ordering::Relaxed))
	}
}
impl Payload {
	pub fn new(leaf: u32) -> Self {
		Payload { leaf, val: AtomicU64::new(0) }
	}
}

// ------------------------------------------------------------------------------------------
// Visit: walk the payloads reachable through a guard / closure argument in declared order
// ------------------------------------------------------------------------------------------

/// `poison` is the stack of enclosing `PoisonResult`s (true = Err) from outermost to innermost.
pub type VisitFn<'f> = dyn FnMut(&Payload, bool, &[bool]) + 'f;

pub trait Visit {
	fn visit(&self, poison: &mut Vec<bool>, f: &mut VisitFn<'_>);
}

impl Visit for &mut Payload {
	fn visit(&self, poison: &mut Vec<bool>, f: &mut VisitFn<'_>) {
		f(self, true, poison)
	}
}
impl Visit for &Payload {
	fn visit(&self, poison: &mut Vec<bool>, f: &mut VisitFn<'_>) {
		f(self, false, poison)
	}
}
impl Visit for MutexRef<'_, Payload, VMutex> {
	fn visit(&self, poison: &mut Vec<bool>, f: &mut VisitFn<'_>) {
		f(self, true, poison)
	}
}
impl Visit for MutexGuard<'_, Payload, VMutex> {
	fn visit(&self, poison: &mut Vec<bool>, f: &mut VisitFn<'_>) {
		f(self, true, poison)
	}
}
impl Visit for RwLockWriteRef<'_, Payload, VRw> {
	fn visit(&self, poison: &mut Vec<bool>, f: &mut VisitFn<'_>) {
		f(self, true, poison)
	}
}
impl Visit for RwLockWriteGuard<'_, Payload, VRw> {
	fn visit(&self, poison: &mut Vec<bool>, f: &mut VisitFn<'_>) {
		f(self, true, poison)
	}
}
impl Visit for RwLockReadRef<'_, Payload, VRw> {
	fn visit(&self, poison: &mut Vec<bool>, f: &mut VisitFn<'_>) {
		f(self, false, poison)
	}
}
impl Visit for RwLockReadGuard<'_, Payload, VRw> {
	fn visit(&self, poison: &mut Vec<bool>, f: &mut VisitFn<'_>) {
		f(self, false, poison)
	}
}
impl<A: Visit> Visit for (A,) {
	fn visit(&self, poison: &mut Vec<bool>, f: &mut VisitFn<'_>) {
		self.0.visit(poison, f)
	}
}
impl<A: Visit, B: Visit> Visit for (A, B) {
	fn visit(&self, poison: &mut Vec<bool>, f: &mut VisitFn<'_>) {
		self.0.visit(poison, f);
		self.1.visit(poison, f)
	}
}
impl<A: Visit, B: Visit, C: Visit, D: Visit> Visit for (A, B, C, D) {
	fn visit(&self, poison: &mut Vec<bool>, f: &mut VisitFn<'_>) {
		self.0.visit(poison, f);
		self.1.visit(poison, f);
		self.2.visit(poison, f);
		self.3.visit(poison, f)
	}
}
impl<A: Visit, B: Visit, C: Visit> Visit for (A, B, C) {
	fn visit(&self, poison: &mut Vec<bool>, f: &mut VisitFn<'_>) {
		self.0.visit(poison, f);
		self.1.visit(poison, f);
		self.2.visit(poison, f)
	}
}
impl<A: Visit, B: Visit, C: Visit, D: Visit, E: Visit> Visit for (A, B, C, D, E) {
	fn visit(&self, poison: &mut Vec<bool>, f: &mut VisitFn<'_>) {
		self.0.visit(poison, f);
		self.1.visit(poison, f);
		self.2.visit(poison, f);
		self.3.visit(poison, f);
		self.4.visit(poison, f);
	}
}
impl<A: Visit, B: Visit, C: Visit, D: Visit, E: Visit, F: Visit> Visit for (A, B, C, D, E, F) {
	fn visit(&self, poison: &mut Vec<bool>, f: &mut VisitFn<'_>) {
		self.0.visit(poison, f);
		self.1.visit(poison, f);
		self.2.visit(poison, f);
		self.3.visit(poison, f);
		self.4.visit(poison, f);
		self.5.visit(poison, f);
	}
}
impl<A: Visit, B: Visit, C: Visit, D: Visit, E: Visit, F: Visit, G: Visit> Visit for (A, B, C, D, E, F, G) {
	fn visit(&self, poison: &mut Vec<bool>, f: &mut VisitFn<'_>) {
		self.0.visit(poison, f);
		self.1.visit(poison, f);
		self.2.visit(poison, f);
		self.3.visit(poison, f);
		self.4.visit(poison, f);
		self.5.visit(poison, f);
		self.6.visit(poison, f);
	}
}
impl<A: Visit, const N: usize> Visit for [A; N] {
	fn visit(&self, poison: &mut Vec<bool>, f: &mut VisitFn<'_>) {
		for a in self {
			a.visit(poison, f)
		}
	}
}
impl<A: Visit> Visit for Box<[A]> {
	fn visit(&self, poison: &mut Vec<bool>, f: &mut VisitFn<'_>) {
		for a in self.iter() {
			a.visit(poison, f)
		}
	}
}
impl<A: Visit> Visit for Result<A, PoisonError<A>> {
	fn visit(&self, poison: &mut Vec<bool>, f: &mut VisitFn<'_>) {
		match self {
			Ok(a) => {
				poison.push(false);
				a.visit(poison, f);
				poison.pop();
			}
			Err(e) => {
				poison.push(true);
				e.get_ref().visit(poison, f);
				poison.pop();
			}
		}
	}
}
impl<G: Visit> Visit for PoisonRef<'_, G> {
	fn visit(&self, poison: &mut Vec<bool>, f: &mut VisitFn<'_>) {
		(**self).visit(poison, f)
	}
}
impl<G: Visit> Visit for PoisonGuard<'_, G> {
	fn visit(&self, poison: &mut Vec<bool>, f: &mut VisitFn<'_>) {
		AsRef::<G>::as_ref(self).visit(poison, f)
	}
}
impl<G: Visit> Visit for LockGuard<G> {
	fn visit(&self, poison: &mut Vec<bool>, f: &mut VisitFn<'_>) {
		(**self).visit(poison, f)
	}
}

// ------------------------------------------------------------------------------------------
// Held: a type-erased live guard
// ------------------------------------------------------------------------------------------

pub trait Held {
	fn visit(&self, f: &mut VisitFn<'_>);
	fn unlock(self: Box<Self>) -> ThreadKey;
	fn debug(&self) -> String;
}
pub struct HeldG<G, U> {
	pub g: G,
	pub u: U,
}
impl<G: Visit + Debug, U: FnOnce(G) -> ThreadKey> Held for HeldG<G, U> {
	fn visit(&self, f: &mut VisitFn<'_>) {
		let mut p = vec![];
		self.g.visit(&mut p, f)
	}
	fn unlock(self: Box<Self>) -> ThreadKey {
		let s = *self;
		(s.u)(s.g)
	}
	fn debug(&self) -> String {
		format!("{:?}", self.g)
	}
}
fn held<'s, G: Visit + Debug + 's, U: FnOnce(G) -> ThreadKey + 's>(g: G, u: U) -> Box<dyn Held + 's> {
	Box::new(HeldG { g, u })
}

pub enum KeyArg<'k> {
	Owned(ThreadKey),
	Lent(&'k mut ThreadKey),
}
pub enum Scoped {
	Done,
	/// try variant failed; an owned key comes back
	WouldBlock(Option<ThreadKey>),
}

pub type BodyFn<'f> = dyn FnMut(&dyn Visit) + 'f;

/// Type-erased lock or collection.
pub trait Coll: Sync {
	fn type_name(&self) -> &'static str;
	fn sharable(&self) -> bool;
	fn lock<'s>(&'s self, key: ThreadKey) -> Box<dyn Held + 's>;
	fn try_lock<'s>(&'s self, key: ThreadKey) -> Result<Box<dyn Held + 's>, ThreadKey>;
	fn read<'s>(&'s self, key: ThreadKey) -> Box<dyn Held + 's>;
	fn try_read<'s>(&'s self, key: ThreadKey) -> Result<Box<dyn Held + 's>, ThreadKey>;
	fn scoped(&self, write: bool, try_: bool, key: KeyArg<'_>, f: &mut BodyFn<'_>) -> Scoped;
	fn debug(&self) -> String;
	/// `RawLock::poison` (a safe, public method): every lock under the target refuses acquisition from now on
	fn kill(&self);
	/// Poisonable targets only
	fn is_poisoned(&self) -> Option<bool> {
		None
	}
	fn clear_poison(&self) {}
}

macro_rules! scoped_arm {
	($self:ident, $meth:ident, $key:ident, $cell:ident) => {{
		match $key {
			KeyArg::Owned(k) => {
				$self.$meth(k, |d| ($cell.borrow_mut())(&d));
				Scoped::Done
			}
			KeyArg::Lent(k) => {
				$self.$meth(k, |d| ($cell.borrow_mut())(&d));
				Scoped::Done
			}
		}
	}};
}
macro_rules! scoped_try_arm {
	($self:ident, $meth:ident, $key:ident, $cell:ident) => {{
		match $key {
			KeyArg::Owned(k) => match $self.$meth(k, |d| ($cell.borrow_mut())(&d)) {
				Ok(()) => Scoped::Done,
				Err(k) => Scoped::WouldBlock(Some(k)),
			},
			KeyArg::Lent(k) => match $self.$meth(k, |d| ($cell.borrow_mut())(&d)) {
				Ok(()) => Scoped::Done,
				Err(_) => Scoped::WouldBlock(None),
			},
		}
	}};
}

/// Collections (all four kinds share method names).
macro_rules! coll_impl {
	// sharable
	(<$lt:lifetime> $ty:ty, $name:expr, rw) => {
		impl<$lt> Coll for $ty {
			coll_impl!(@common $ty, $name);
			fn sharable(&self) -> bool { true }
			fn read<'s>(&'s self, key: ThreadKey) -> Box<dyn Held + 's> {
				held(<$ty>::read(self, key), |g| <$ty>::unlock_read(g))
			}
			fn try_read<'s>(&'s self, key: ThreadKey) -> Result<Box<dyn Held + 's>, ThreadKey> {
				<$ty>::try_read(self, key).map(|g| held(g, |g| <$ty>::unlock_read(g)))
			}
			fn scoped(&self, write: bool, try_: bool, key: KeyArg<'_>, f: &mut BodyFn<'_>) -> Scoped {
				let cell = RefCell::new(f);
				match (write, try_) {
					(true, false) => scoped_arm!(self, scoped_lock, key, cell),
					(true, true) => scoped_try_arm!(self, scoped_try_lock, key, cell),
					(false, false) => scoped_arm!(self, scoped_read, key, cell),
					(false, true) => scoped_try_arm!(self, scoped_try_read, key, cell),
				}
			}
		}
	};
	// exclusive only
	(<$lt:lifetime> $ty:ty, $name:expr, x) => {
		impl<$lt> Coll for $ty {
			coll_impl!(@common $ty, $name);
			fn sharable(&self) -> bool { false }
			fn read<'s>(&'s self, _key: ThreadKey) -> Box<dyn Held + 's> {
				panic!("harness: read on non-sharable target")
			}
			fn try_read<'s>(&'s self, _key: ThreadKey) -> Result<Box<dyn Held + 's>, ThreadKey> {
				panic!("harness: try_read on non-sharable target")
			}
			fn scoped(&self, write: bool, try_: bool, key: KeyArg<'_>, f: &mut BodyFn<'_>) -> Scoped {
				let cell = RefCell::new(f);
				match (write, try_) {
					(true, false) => scoped_arm!(self, scoped_lock, key, cell),
					(true, true) => scoped_try_arm!(self, scoped_try_lock, key, cell),
					_ => panic!("harness: scoped read on non-sharable target"),
				}
			}
		}
	};
	(@common $ty:ty, $name:expr) => {
		fn type_name(&self) -> &'static str { $name }
		fn lock<'s>(&'s self, key: ThreadKey) -> Box<dyn Held + 's> {
			held(<$ty>::lock(self, key), |g| <$ty>::unlock(g))
		}
		fn try_lock<'s>(&'s self, key: ThreadKey) -> Result<Box<dyn Held + 's>, ThreadKey> {
			<$ty>::try_lock(self, key).map(|g| held(g, |g| <$ty>::unlock(g)))
		}
		fn debug(&self) -> String { format!("{:?}", self) }
		fn kill(&self) { happylock::lockable::RawLock::poison(self) }
	};
}

/// Poisonable<X> for X a lock or collection.
macro_rules! pois_impl {
	(<$lt:lifetime> $inner:ty, $name:expr, rw) => {
		impl<$lt> Coll for Poisonable<$inner> {
			pois_impl!(@common $inner, $name);
			fn sharable(&self) -> bool { true }
			fn read<'s>(&'s self, key: ThreadKey) -> Box<dyn Held + 's> {
				held(Poisonable::<$inner>::read(self, key), |g| match g {
					Ok(g) => Poisonable::<$inner>::unlock_read(g),
					Err(e) => Poisonable::<$inner>::unlock_read(e.into_inner()),
				})
			}
			fn try_read<'s>(&'s self, key: ThreadKey) -> Result<Box<dyn Held + 's>, ThreadKey> {
				let r = match Poisonable::<$inner>::try_read(self, key) {
					Ok(g) => Ok(g),
					Err(TryLockPoisonableError::Poisoned(e)) => Err(e),
					Err(TryLockPoisonableError::WouldBlock(k)) => return Err(k),
				};
				Ok(held(r, |g| match g {
					Ok(g) => Poisonable::<$inner>::unlock_read(g),
					Err(e) => Poisonable::<$inner>::unlock_read(e.into_inner()),
				}))
			}
			fn scoped(&self, write: bool, try_: bool, key: KeyArg<'_>, f: &mut BodyFn<'_>) -> Scoped {
				let cell = RefCell::new(f);
				match (write, try_) {
					(true, false) => scoped_arm!(self, scoped_lock, key, cell),
					(true, true) => scoped_try_arm!(self, scoped_try_lock, key, cell),
					(false, false) => scoped_arm!(self, scoped_read, key, cell),
					(false, true) => scoped_try_arm!(self, scoped_try_read, key, cell),
				}
			}
		}
	};
	(<$lt:lifetime> $inner:ty, $name:expr, x) => {
		impl<$lt> Coll for Poisonable<$inner> {
			pois_impl!(@common $inner, $name);
			fn sharable(&self) -> bool { false }
			fn read<'s>(&'s self, _key: ThreadKey) -> Box<dyn Held + 's> {
				panic!("harness: read on non-sharable target")
			}
			fn try_read<'s>(&'s self, _key: ThreadKey) -> Result<Box<dyn Held + 's>, ThreadKey> {
				panic!("harness: try_read on non-sharable target")
			}
			fn scoped(&self, write: bool, try_: bool, key: KeyArg<'_>, f: &mut BodyFn<'_>) -> Scoped {
				let cell = RefCell::new(f);
				match (write, try_) {
					(true, false) => scoped_arm!(self, scoped_lock, key, cell),
					(true, true) => scoped_try_arm!(self, scoped_try_lock, key, cell),
					_ => panic!("harness: scoped read on non-sharable target"),
				}
			}
		}
	};
	(@common $inner:ty, $name:expr) => {
		fn type_name(&self) -> &'static str { $name }
		fn lock<'s>(&'s self, key: ThreadKey) -> Box<dyn Held + 's> {
			held(Poisonable::<$inner>::lock(self, key), |g| match g {
				Ok(g) => Poisonable::<$inner>::unlock(g),
				Err(e) => Poisonable::<$inner>::unlock(e.into_inner()),
			})
		}
		fn try_lock<'s>(&'s self, key: ThreadKey) -> Result<Box<dyn Held + 's>, ThreadKey> {
			let r = match Poisonable::<$inner>::try_lock(self, key) {
				Ok(g) => Ok(g),
				Err(TryLockPoisonableError::Poisoned(e)) => Err(e),
				Err(TryLockPoisonableError::WouldBlock(k)) => return Err(k),
			};
			Ok(held(r, |g| match g {
				Ok(g) => Poisonable::<$inner>::unlock(g),
				Err(e) => Poisonable::<$inner>::unlock(e.into_inner()),
			}))
		}
		fn debug(&self) -> String { format!("{:?}", self) }
		fn kill(&self) { happylock::lockable::RawLock::poison(self) }
		fn is_poisoned(&self) -> Option<bool> { Some(Poisonable::is_poisoned(self)) }
		fn clear_poison(&self) { Poisonable::clear_poison(self) }
	};
}

// single Mutex
impl Coll for M {
	fn type_name(&self) -> &'static str {
		"Mutex"
	}
	fn sharable(&self) -> bool {
		false
	}
	fn lock<'s>(&'s self, key: ThreadKey) -> Box<dyn Held + 's> {
		held(M::lock(self, key), |g| M::unlock(g))
	}
	fn try_lock<'s>(&'s self, key: ThreadKey) -> Result<Box<dyn Held + 's>, ThreadKey> {
		M::try_lock(self, key).map(|g| held(g, |g| M::unlock(g)))
	}
	fn read<'s>(&'s self, _key: ThreadKey) -> Box<dyn Held + 's> {
		panic!("harness: read on mutex")
	}
	fn try_read<'s>(&'s self, _key: ThreadKey) -> Result<Box<dyn Held + 's>, ThreadKey> {
		panic!("harness: read on mutex")
	}
	fn scoped(&self, write: bool, try_: bool, key: KeyArg<'_>, f: &mut BodyFn<'_>) -> Scoped {
		let cell = RefCell::new(f);
		match (write, try_) {
			(true, false) => scoped_arm!(self, scoped_lock, key, cell),
			(true, true) => scoped_try_arm!(self, scoped_try_lock, key, cell),
			_ => panic!("harness: scoped read on mutex"),
		}
	}
	fn debug(&self) -> String {
		format!("{:?}", self)
	}
	fn kill(&self) {
		happylock::lockable::RawLock::poison(self)
	}
}

// single RwLock
impl Coll for R {
	fn type_name(&self) -> &'static str {
		"RwLock"
	}
	fn sharable(&self) -> bool {
		true
	}
	fn lock<'s>(&'s self, key: ThreadKey) -> Box<dyn Held + 's> {
		held(R::write(self, key), |g| R::unlock_write(g))
	}
	fn try_lock<'s>(&'s self, key: ThreadKey) -> Result<Box<dyn Held + 's>, ThreadKey> {
		R::try_write(self, key).map(|g| held(g, |g| R::unlock_write(g)))
	}
	fn read<'s>(&'s self, key: ThreadKey) -> Box<dyn Held + 's> {
		held(R::read(self, key), |g| R::unlock_read(g))
	}
	fn try_read<'s>(&'s self, key: ThreadKey) -> Result<Box<dyn Held + 's>, ThreadKey> {
		R::try_read(self, key).map(|g| held(g, |g| R::unlock_read(g)))
	}
	fn scoped(&self, write: bool, try_: bool, key: KeyArg<'_>, f: &mut BodyFn<'_>) -> Scoped {
		let cell = RefCell::new(f);
		match (write, try_) {
			(true, false) => scoped_arm!(self, scoped_write, key, cell),
			(true, true) => scoped_try_arm!(self, scoped_try_write, key, cell),
			(false, false) => scoped_arm!(self, scoped_read, key, cell),
			(false, true) => scoped_try_arm!(self, scoped_try_read, key, cell),
		}
	}
	fn debug(&self) -> String {
		format!("{:?}", self)
	}
	fn kill(&self) {
		happylock::lockable::RawLock::poison(self)
	}
}

// ------------------------------------------------------------------------------------------
// Heterogeneous member types: a collection member chosen at run time.
// The impls only delegate to the member's own happylock impl.
// ------------------------------------------------------------------------------------------

macro_rules! any_family {
	(
		$Any:ident, $G:ident, $D:ident, [$( $V:ident : $T:ty ),* $(,)?]
	) => {
		#[derive(Debug)]
		pub enum $Any<'w> { $( $V(&'w $T), )* }
		#[derive(Debug)]
		pub enum $G<'g, 'w: 'g> { $( $V(<$T as Lockable>::Guard<'g>), )* }
		pub enum $D<'g, 'w: 'g> { $( $V(<$T as Lockable>::DataMut<'g>), )* }

		unsafe impl<'w> Lockable for $Any<'w> {
			type Guard<'g> = $G<'g, 'w> where Self: 'g;
			type DataMut<'a> = $D<'a, 'w> where Self: 'a;
			fn get_ptrs<'a>(&'a self, ptrs: &mut Vec<&'a dyn RawLock>) {
				match self { $( $Any::$V(x) => x.get_ptrs(ptrs), )* }
			}
			unsafe fn guard(&self) -> Self::Guard<'_> {
				match self { $( $Any::$V(x) => $G::$V(x.guard()), )* }
			}
			unsafe fn data_mut(&self) -> Self::DataMut<'_> {
				match self { $( $Any::$V(x) => $D::$V(x.data_mut()), )* }
			}
		}
		impl<'w> Visit for $G<'_, 'w> {
			fn visit(&self, poison: &mut Vec<bool>, f: &mut VisitFn<'_>) {
				match self { $( $G::$V(x) => x.visit(poison, f), )* }
			}
		}
		impl<'w> Visit for $D<'_, 'w> {
			fn visit(&self, poison: &mut Vec<bool>, f: &mut VisitFn<'_>) {
				match self { $( $D::$V(x) => x.visit(poison, f), )* }
			}
		}
	};
}

macro_rules! any_family_read {
	(
		$Any:ident, $RG:ident, $RD:ident, [$( $V:ident : $T:ty ),* $(,)?]
	) => {
		#[derive(Debug)]
		pub enum $RG<'g, 'w: 'g> { $( $V(<$T as Sharable>::ReadGuard<'g>), )* }
		pub enum $RD<'g, 'w: 'g> { $( $V(<$T as Sharable>::DataRef<'g>), )* }
		unsafe impl<'w> Sharable for $Any<'w> {
			type ReadGuard<'g> = $RG<'g, 'w> where Self: 'g;
			type DataRef<'a> = $RD<'a, 'w> where Self: 'a;
			unsafe fn read_guard(&self) -> Self::ReadGuard<'_> {
				match self { $( $Any::$V(x) => $RG::$V(x.read_guard()), )* }
			}
			unsafe fn data_ref(&self) -> Self::DataRef<'_> {
				match self { $( $Any::$V(x) => $RD::$V(x.data_ref()), )* }
			}
		}
		impl<'w> Visit for $RG<'_, 'w> {
			fn visit(&self, poison: &mut Vec<bool>, f: &mut VisitFn<'_>) {
				match self { $( $RG::$V(x) => x.visit(poison, f), )* }
			}
		}
		impl<'w> Visit for $RD<'_, 'w> {
			fn visit(&self, poison: &mut Vec<bool>, f: &mut VisitFn<'_>) {
				match self { $( $RD::$V(x) => x.visit(poison, f), )* }
			}
		}
	};
}

pub type BS<'w> = BoxedLockCollection<Vec<AnyS<'w>>>;
pub type FS<'w> = RefLockCollection<'w, Vec<AnyS<'w>>>;
pub type TS<'w> = RetryingLockCollection<Vec<AnyS<'w>>>;
pub type BX<'w> = BoxedLockCollection<Vec<AnyX<'w>>>;
pub type FX<'w> = RefLockCollection<'w, Vec<AnyX<'w>>>;
pub type TX<'w> = RetryingLockCollection<Vec<AnyX<'w>>>;

any_family!(AnyS, AnySG, AnySD, [
	R: R, PR: PR, OW: OW,
	B: BS<'w>, F: FS<'w>, T: TS<'w>,
	PB: Poisonable<BS<'w>>, PF: Poisonable<FS<'w>>, PT: Poisonable<TS<'w>>,
	PPR: Poisonable<PR>,
]);
any_family_read!(AnyS, AnySRG, AnySRD, [
	R: R, PR: PR, OW: OW,
	B: BS<'w>, F: FS<'w>, T: TS<'w>,
	PB: Poisonable<BS<'w>>, PF: Poisonable<FS<'w>>, PT: Poisonable<TS<'w>>,
	PPR: Poisonable<PR>,
]);

any_family!(AnyX, AnyXG, AnyXD, [
	R: R, PR: PR, OW: OW, M: M, PM: PM,
	B: BX<'w>, F: FX<'w>, T: TX<'w>,
	PB: Poisonable<BX<'w>>, PF: Poisonable<FX<'w>>, PT: Poisonable<TX<'w>>,
	PPM: Poisonable<PM>,
	SB: BS<'w>, SF: FS<'w>, ST: TS<'w>,
]);

coll_impl!(<'w> BS<'w>, "Boxed<Vec<AnyS>>", rw);
coll_impl!(<'w> FS<'w>, "Ref<Vec<AnyS>>", rw);
coll_impl!(<'w> TS<'w>, "Retrying<Vec<AnyS>>", rw);
coll_impl!(<'w> BX<'w>, "Boxed<Vec<AnyX>>", x);
coll_impl!(<'w> FX<'w>, "Ref<Vec<AnyX>>", x);
coll_impl!(<'w> TX<'w>, "Retrying<Vec<AnyX>>", x);
coll_impl!(<'w> OW, "Owned<Vec<RwLock>>", rw);

pois_impl!(<'w> M, "Poisonable<Mutex>", x);
pois_impl!(<'w> R, "Poisonable<RwLock>", rw);
pois_impl!(<'w> PM, "Poisonable<Poisonable<Mutex>>", x);
pois_impl!(<'w> PR, "Poisonable<Poisonable<RwLock>>", rw);
pois_impl!(<'w> BS<'w>, "Poisonable<Boxed<Vec<AnyS>>>", rw);
pois_impl!(<'w> FS<'w>, "Poisonable<Ref<Vec<AnyS>>>", rw);
pois_impl!(<'w> TS<'w>, "Poisonable<Retrying<Vec<AnyS>>>", rw);
pois_impl!(<'w> BX<'w>, "Poisonable<Boxed<Vec<AnyX>>>", x);
pois_impl!(<'w> FX<'w>, "Poisonable<Ref<Vec<AnyX>>>", x);
pois_impl!(<'w> TX<'w>, "Poisonable<Retrying<Vec<AnyX>>>", x);
pois_impl!(<'w> OW, "Poisonable<Owned<Vec<RwLock>>>", rw);

// ---- native container shapes (happylock's own tuple / array / Vec / boxed-slice impls) ----
/// A zero-sized lockable member placed at the same address as the first of three locks (offset 0 of one block).
#[repr(C)]
pub struct ZBlock {
	pub z: OwnedLockCollection<[R; 0]>,
	pub locks: [R; 3],
}
pub type ZTup<'w> = (&'w OwnedLockCollection<[R; 0]>, &'w R, &'w R, &'w R);
coll_impl!(<'w> BoxedLockCollection<ZTup<'w>>, "Boxed<(&Owned<[;0]>,&RwLock,&RwLock,&RwLock)>", rw);
coll_impl!(<'w> RefLockCollection<'w, ZTup<'w>>, "Ref<(&Owned<[;0]>,&RwLock,&RwLock,&RwLock)>", rw);
coll_impl!(<'w> RetryingLockCollection<ZTup<'w>>, "Retrying<(&Owned<[;0]>,&RwLock,&RwLock,&RwLock)>", rw);
coll_impl!(<'w> BoxedLockCollection<[&'w R; 3]>, "Boxed<[&RwLock;3]>", rw);
coll_impl!(<'w> RefLockCollection<'w, [&'w R; 3]>, "Ref<[&RwLock;3]>", rw);
coll_impl!(<'w> RetryingLockCollection<[&'w R; 3]>, "Retrying<[&RwLock;3]>", rw);
coll_impl!(<'w> BoxedLockCollection<(&'w M, &'w R)>, "Boxed<(&Mutex,&RwLock)>", x);
coll_impl!(<'w> RefLockCollection<'w, (&'w M, &'w R)>, "Ref<(&Mutex,&RwLock)>", x);
coll_impl!(<'w> RetryingLockCollection<(&'w M, &'w R)>, "Retrying<(&Mutex,&RwLock)>", x);
coll_impl!(<'w> BoxedLockCollection<Box<[&'w R]>>, "Boxed<Box<[&RwLock]>>", rw);
coll_impl!(<'w> RefLockCollection<'w, Box<[&'w R]>>, "Ref<Box<[&RwLock]>>", rw);
coll_impl!(<'w> RetryingLockCollection<Box<[&'w R]>>, "Retrying<Box<[&RwLock]>>", rw);
coll_impl!(<'w> BoxedLockCollection<(Vec<&'w M>, Vec<&'w R>)>, "Boxed<(Vec<&Mutex>,Vec<&RwLock>)>", x);
coll_impl!(<'w> BoxedLockCollection<(&'w R, &'w R, &'w PR)>, "Boxed<(&RwLock,&RwLock,&Poisonable<RwLock>)>", rw);
coll_impl!(<'w> BoxedLockCollection<[OwnedLockCollection<[R; 0]>; 2]>, "Boxed<[Owned<[RwLock;0]>;2]>", rw);
coll_impl!(<'w> RefLockCollection<'w, [OwnedLockCollection<[R; 0]>; 2]>, "Ref<[Owned<[RwLock;0]>;2]>", rw);
coll_impl!(<'w> RetryingLockCollection<[OwnedLockCollection<[R; 0]>; 2]>, "Retrying<[Owned<[RwLock;0]>;2]>", rw);
coll_impl!(<'w> BoxedLockCollection<(OwnedLockCollection<[R; 0]>, &'w R, OwnedLockCollection<[R; 0]>, &'w R)>, "Boxed<(Owned<[;0]>,&RwLock,Owned<[;0]>,&RwLock)>", rw);
coll_impl!(<'w> RefLockCollection<'w, (OwnedLockCollection<[R; 0]>, &'w R, OwnedLockCollection<[R; 0]>, &'w R)>, "Ref<(Owned<[;0]>,&RwLock,Owned<[;0]>,&RwLock)>", rw);
coll_impl!(<'w> RetryingLockCollection<(OwnedLockCollection<[R; 0]>, &'w R, OwnedLockCollection<[R; 0]>, &'w R)>, "Retrying<(Owned<[;0]>,&RwLock,Owned<[;0]>,&RwLock)>", rw);
coll_impl!(<'w> BoxedLockCollection<&'w [Vec<R>; 2]>, "Boxed<&[Vec<RwLock>;2]> (new_ref)", rw);
coll_impl!(<'w> BoxedLockCollection<[Vec<R>; 2]>, "Boxed<[Vec<RwLock>;2]> (owning)", rw);
coll_impl!(<'w> RefLockCollection<'w, [Vec<R>; 2]>, "Ref<[Vec<RwLock>;2]> (new)", rw);
coll_impl!(<'w> RetryingLockCollection<&'w [Vec<R>; 2]>, "Retrying<&[Vec<RwLock>;2]> (new_ref)", rw);
// `&mut` members (they are OwnedLockable): happylock's `impl Lockable for &mut T`
coll_impl!(<'w> OwnedLockCollection<Vec<&'w mut R>>, "Owned<Vec<&mut RwLock>>", rw);
coll_impl!(<'w> BoxedLockCollection<Vec<&'w mut R>>, "Boxed<Vec<&mut RwLock>> (new)", rw);
coll_impl!(<'w> RetryingLockCollection<Vec<&'w mut R>>, "Retrying<Vec<&mut RwLock>> (new)", rw);
coll_impl!(<'w> RefLockCollection<'w, Vec<&'w mut R>>, "Ref<Vec<&mut RwLock>> (new)", rw);
// unchecked-at-runtime constructors over owning inputs
coll_impl!(<'w> BoxedLockCollection<&'w OW>, "Boxed<&Owned> (new_ref)", rw);
coll_impl!(<'w> RefLockCollection<'w, OW>, "Ref<Owned> (new)", rw);
coll_impl!(<'w> RetryingLockCollection<&'w OW>, "Retrying<&Owned> (new_ref)", rw);
// owning top-level shapes (own their leaves)
// tuples of every arity the library implements (1..=7): references for the sorting/retrying kinds, owned locks for Owned
coll_impl!(<'w> BoxedLockCollection<(&'w R,)>, "Boxed<(&RwLock x1)>", rw);
coll_impl!(<'w> RefLockCollection<'w, (&'w R,)>, "Ref<(&RwLock x1)>", rw);
coll_impl!(<'w> RetryingLockCollection<(&'w R,)>, "Retrying<(&RwLock x1)>", rw);
coll_impl!(<'w> OwnedLockCollection<(R,)>, "Owned<(RwLock x1)>", rw);
coll_impl!(<'w> BoxedLockCollection<(&'w R, &'w R)>, "Boxed<(&RwLock x2)>", rw);
coll_impl!(<'w> RefLockCollection<'w, (&'w R, &'w R)>, "Ref<(&RwLock x2)>", rw);
coll_impl!(<'w> RetryingLockCollection<(&'w R, &'w R)>, "Retrying<(&RwLock x2)>", rw);
coll_impl!(<'w> OwnedLockCollection<(R, R)>, "Owned<(RwLock x2)>", rw);
coll_impl!(<'w> BoxedLockCollection<(&'w R, &'w R, &'w R)>, "Boxed<(&RwLock x3)>", rw);
coll_impl!(<'w> RefLockCollection<'w, (&'w R, &'w R, &'w R)>, "Ref<(&RwLock x3)>", rw);
coll_impl!(<'w> RetryingLockCollection<(&'w R, &'w R, &'w R)>, "Retrying<(&RwLock x3)>", rw);
coll_impl!(<'w> OwnedLockCollection<(R, R, R)>, "Owned<(RwLock x3)>", rw);
coll_impl!(<'w> BoxedLockCollection<(&'w R, &'w R, &'w R, &'w R)>, "Boxed<(&RwLock x4)>", rw);
coll_impl!(<'w> RefLockCollection<'w, (&'w R, &'w R, &'w R, &'w R)>, "Ref<(&RwLock x4)>", rw);
coll_impl!(<'w> RetryingLockCollection<(&'w R, &'w R, &'w R, &'w R)>, "Retrying<(&RwLock x4)>", rw);
coll_impl!(<'w> OwnedLockCollection<(R, R, R, R)>, "Owned<(RwLock x4)>", rw);
coll_impl!(<'w> BoxedLockCollection<(&'w R, &'w R, &'w R, &'w R, &'w R)>, "Boxed<(&RwLock x5)>", rw);
coll_impl!(<'w> RefLockCollection<'w, (&'w R, &'w R, &'w R, &'w R, &'w R)>, "Ref<(&RwLock x5)>", rw);
coll_impl!(<'w> RetryingLockCollection<(&'w R, &'w R, &'w R, &'w R, &'w R)>, "Retrying<(&RwLock x5)>", rw);
coll_impl!(<'w> OwnedLockCollection<(R, R, R, R, R)>, "Owned<(RwLock x5)>", rw);
coll_impl!(<'w> BoxedLockCollection<(&'w R, &'w R, &'w R, &'w R, &'w R, &'w R)>, "Boxed<(&RwLock x6)>", rw);
coll_impl!(<'w> RefLockCollection<'w, (&'w R, &'w R, &'w R, &'w R, &'w R, &'w R)>, "Ref<(&RwLock x6)>", rw);
coll_impl!(<'w> RetryingLockCollection<(&'w R, &'w R, &'w R, &'w R, &'w R, &'w R)>, "Retrying<(&RwLock x6)>", rw);
coll_impl!(<'w> OwnedLockCollection<(R, R, R, R, R, R)>, "Owned<(RwLock x6)>", rw);
coll_impl!(<'w> BoxedLockCollection<(&'w R, &'w R, &'w R, &'w R, &'w R, &'w R, &'w R)>, "Boxed<(&RwLock x7)>", rw);
coll_impl!(<'w> RefLockCollection<'w, (&'w R, &'w R, &'w R, &'w R, &'w R, &'w R, &'w R)>, "Ref<(&RwLock x7)>", rw);
coll_impl!(<'w> RetryingLockCollection<(&'w R, &'w R, &'w R, &'w R, &'w R, &'w R, &'w R)>, "Retrying<(&RwLock x7)>", rw);
coll_impl!(<'w> OwnedLockCollection<(R, R, R, R, R, R, R)>, "Owned<(RwLock x7)>", rw);
coll_impl!(<'w> BoxedLockCollection<&'w OwnedLockCollection<Vec<&'w mut R>>>, "Boxed<&Owned<Vec<&mut RwLock>>> (new_ref)", rw);
coll_impl!(<'w> RefLockCollection<'w, OwnedLockCollection<Vec<&'w mut R>>>, "Ref<Owned<Vec<&mut RwLock>>> (new)", rw);
coll_impl!(<'w> RetryingLockCollection<&'w OwnedLockCollection<Vec<&'w mut R>>>, "Retrying<&Owned<Vec<&mut RwLock>>> (new_ref)", rw);
// a sorting / retrying collection over a reference to an owned unit whose members are listed in descending address order
coll_impl!(<'w> BoxedLockCollection<(&'w OwnedLockCollection<Vec<&'w mut R>>, &'w R)>, "Boxed<(&Owned<Vec<&mut RwLock>>,&RwLock)>", rw);
coll_impl!(<'w> RefLockCollection<'w, (&'w OwnedLockCollection<Vec<&'w mut R>>, &'w R)>, "Ref<(&Owned<Vec<&mut RwLock>>,&RwLock)>", rw);
coll_impl!(<'w> RetryingLockCollection<(&'w OwnedLockCollection<Vec<&'w mut R>>, &'w R)>, "Retrying<(&Owned<Vec<&mut RwLock>>,&RwLock)>", rw);
// an owned tuple with a zero-sized member that may share its address with the real lock next to it
coll_impl!(<'w> BoxedLockCollection<(OwnedLockCollection<[R; 0]>, R)>, "Boxed<(Owned<[;0]>,RwLock)> (new)", rw);
coll_impl!(<'w> RefLockCollection<'w, (OwnedLockCollection<[R; 0]>, R)>, "Ref<(Owned<[;0]>,RwLock)> (new)", rw);
coll_impl!(<'w> RetryingLockCollection<(OwnedLockCollection<[R; 0]>, R)>, "Retrying<(Owned<[;0]>,RwLock)> (new)", rw);
coll_impl!(<'w> OwnedLockCollection<(OwnedLockCollection<[R; 0]>, R)>, "Owned<(Owned<[;0]>,RwLock)>", rw);
coll_impl!(<'w> BoxedLockCollection<(R, OwnedLockCollection<[R; 0]>)>, "Boxed<(RwLock,Owned<[;0]>)> (new)", rw);
coll_impl!(<'w> RefLockCollection<'w, (R, OwnedLockCollection<[R; 0]>)>, "Ref<(RwLock,Owned<[;0]>)> (new)", rw);
coll_impl!(<'w> RetryingLockCollection<(R, OwnedLockCollection<[R; 0]>)>, "Retrying<(RwLock,Owned<[;0]>)> (new)", rw);
coll_impl!(<'w> OwnedLockCollection<(R, OwnedLockCollection<[R; 0]>)>, "Owned<(RwLock,Owned<[;0]>)>", rw);
coll_impl!(<'w> OwnedLockCollection<(M, R)>, "Owned<(Mutex,RwLock)>", x);
coll_impl!(<'w> OwnedLockCollection<[R; 3]>, "Owned<[RwLock;3]>", rw);
coll_impl!(<'w> OwnedLockCollection<Box<[R]>>, "Owned<Box<[RwLock]>>", rw);
coll_impl!(<'w> BoxedLockCollection<Vec<R>>, "Boxed<Vec<RwLock>> (new)", rw);
coll_impl!(<'w> RetryingLockCollection<Vec<R>>, "Retrying<Vec<RwLock>> (new)", rw);
coll_impl!(<'w> RetryingLockCollection<[R; 3]>, "Retrying<[RwLock;3]> (new)", rw);
coll_impl!(<'w> OwnedLockCollection<(RetryingLockCollection<Vec<R>>, R)>, "Owned<(Retrying<Vec<RwLock>>,RwLock)>", rw);
coll_impl!(<'w> BoxedLockCollection<(OwnedLockCollection<Vec<R>>, R)>, "Boxed<(Owned<Vec<RwLock>>,RwLock)> (new)", rw);
coll_impl!(<'w> RetryingLockCollection<(OwnedLockCollection<Vec<R>>, R)>, "Retrying<(Owned<Vec<RwLock>>,RwLock)> (new)", rw);
coll_impl!(<'w> OwnedLockCollection<(Poisonable<R>, R)>, "Owned<(Poisonable<RwLock>,RwLock)>", rw);

// ------------------------------------------------------------------------------------------
// Store: a tiny typed arena so that built objects can reference earlier ones
// ------------------------------------------------------------------------------------------

/// Objects built for one execution live in a per-thread, fixed, reused memory region (bump
/// allocation), so that the *relative addresses* of everything the harness builds (arena leaves,
/// collection structs, stashed member lists) are the same in every execution and in every worker
/// thread. Anything the library sorts by address is therefore ordered deterministically, even for
/// changes to the library that sort objects the unmodified code never sorts.
pub struct Store {
	items: RefCell<Vec<(*mut u8, unsafe fn(*mut u8))>>,
	base: *mut u8,
	off: std::cell::Cell<usize>,
}
use crate::halloc::STORE_BYTES;
thread_local! {
	static STORE_ALIVE: std::cell::Cell<bool> = const { std::cell::Cell::new(false) };
}
impl Store {
	pub fn new() -> Self {
		let base = crate::halloc::my_slice();
		STORE_ALIVE.with(|a| {
			assert!(!a.get(), "harness: two Stores alive on one thread");
			a.set(true);
		});
		crate::halloc::reset_heap();
		Store { items: RefCell::new(vec![]), base, off: std::cell::Cell::new(0) }
	}
	fn stash_raw<T>(&self, v: T) -> *mut T {
		unsafe fn dropper<T>(p: *mut u8) {
			std::ptr::drop_in_place(p as *mut T);
		}
		let align = std::mem::align_of::<T>().max(8);
		let start = (self.off.get() + align - 1) / align * align;
		let end = start + std::mem::size_of::<T>().max(1);
		assert!(end <= STORE_BYTES, "harness: store exhausted");
		self.off.set(end);
		let p = unsafe { self.base.add(start) } as *mut T;
		unsafe { std::ptr::write(p, v) };
		self.items.borrow_mut().push((p as *mut u8, dropper::<T>));
		p
	}
	/// Like `stash`, but hands out the unique reference (the caller is the only user of the object).
	#[allow(clippy::mut_from_ref)]
	pub fn stash_mut<'s, T: 's>(&'s self, v: T) -> &'s mut T {
		unsafe { &mut *self.stash_raw(v) }
	}
	pub fn stash<'s, T: 's>(&'s self, v: T) -> &'s T {
		unsafe { &*self.stash_raw(v) }
	}
}
impl Drop for Store {
	fn drop(&mut self) {
		let mut items = self.items.borrow_mut();
		while let Some((p, d)) = items.pop() {
			unsafe { d(p) }
		}
		STORE_ALIVE.with(|a| a.set(false));
	}
}

// ------------------------------------------------------------------------------------------
// Arena of leaves
// ------------------------------------------------------------------------------------------

pub const NR: usize = 6;
pub const NM: usize = 3;
pub const NPM: usize = 2;
pub const NPR: usize = 2;
pub const NOW: usize = 2;
pub const OWSZ: usize = 2;

pub const R0: u32 = 0;
pub const M0: u32 = R0 + NR as u32;
pub const PM0: u32 = M0 + NM as u32;
pub const PR0: u32 = PM0 + NPM as u32;
pub const OW0: u32 = PR0 + NPR as u32;
pub const ARENA_LOCKS: u32 = OW0 + (NOW * OWSZ) as u32;

#[repr(C)]
pub struct Arena {
	pub r: [R; NR],
	pub m: [M; NM],
	pub pm: [PM; NPM],
	pub pr: [PR; NPR],
	pub ow: [OW; NOW],
	/// double wrappers
	pub ppm: Poisonable<PM>,
	pub ppr: Poisonable<PR>,
}

pub fn reg_m(id: u32) -> M {
	let m = M::new(Payload::new(id));
	rt::register_begin(id);
	unsafe {
		RawLock::raw_try_write(&m);
	}
	rt::register_end();
	m
}
pub fn reg_r(id: u32) -> R {
	let r = R::new(Payload::new(id));
	rt::register_begin(id);
	unsafe {
		RawLock::raw_try_write(&r);
	}
	rt::register_end();
	r
}

pub const PPM_LEAF: u32 = ARENA_LOCKS;
pub const PPR_LEAF: u32 = ARENA_LOCKS + 1;
pub const ARENA_TOTAL: u32 = ARENA_LOCKS + 2;

impl Arena {
	/// The arena is the first object of the execution's store.
	pub fn new_in(store: &Store) -> &Arena {
		let _scope = crate::halloc::BuildScope::enter();
		let r: [R; NR] = std::array::from_fn(|i| reg_r(R0 + i as u32));
		let m: [M; NM] = std::array::from_fn(|i| reg_m(M0 + i as u32));
		let pm: [PM; NPM] = std::array::from_fn(|i| Poisonable::new(reg_m(PM0 + i as u32)));
		let pr: [PR; NPR] = std::array::from_fn(|i| Poisonable::new(reg_r(PR0 + i as u32)));
		let ow: [OW; NOW] = std::array::from_fn(|i| OwnedLockCollection::new((0..OWSZ).map(|j| reg_r(OW0 + (i * OWSZ + j) as u32)).collect::<Vec<R>>()));
		let ppm = Poisonable::new(Poisonable::new(reg_m(PPM_LEAF)));
		let ppr = Poisonable::new(Poisonable::new(reg_r(PPR_LEAF)));
		store.stash(Arena { r, m, pm, pr, ow, ppm, ppr })
	}
	pub fn is_rw_table() -> Vec<bool> {
		let mut v = vec![];
		for i in 0..ARENA_TOTAL {
			v.push(!((M0..PR0).contains(&i) || i == PPM_LEAF));
		}
		v
	}
	pub fn unit_table() -> Vec<u32> {
		let mut v = vec![0; ARENA_TOTAL as usize];
		for i in 0..NOW {
			for j in 0..OWSZ {
				v[OW0 as usize + i * OWSZ + j] = 1 + i as u32;
			}
		}
		v
	}
}

pub fn ow_leaves(i: usize) -> Vec<u32> {
	(0..OWSZ).map(|j| OW0 + (i * OWSZ + j) as u32).collect()
}
