//! Evidence files, known findings, replay artefacts, exit codes.

use std::collections::hash_map::DefaultHasher;
use std::collections::BTreeMap;
use std::hash::{Hash, Hasher};
use std::time::Instant;

use serde_json::{json, Value};

pub const VERIF_DIR: &str = "/verif";

/// Where evidence and replays are written (and where known_findings.json is read from). `HLVERIF_DIR` redirects
/// it for development copies of the harness and for the parallel mutation runs (`mutants/auto`).
pub fn verif_dir() -> String {
	std::env::var("HLVERIF_DIR").unwrap_or_else(|_| VERIF_DIR.to_string())
}

#[derive(Clone, Debug)]
pub struct Viol {
	pub prop: String,
	pub key: String,
	pub detail: String,
	/// everything needed to replay: written to the replay file
	pub replay: Value,
}

pub struct Report {
	pub prop: String,
	pub tier: String,
	pub level: String,
	pub start: Instant,
	pub coverage: BTreeMap<String, Value>,
	pub samples: Vec<Value>,
	pub assumptions: Vec<String>,
	pub violations: Vec<Viol>,
	pub xrefs: Vec<Viol>,
	pub machinery: Vec<String>,
	pub exhaustive: bool,
	pub notes: Vec<String>,
}

pub fn tier_from_args(args: &[String]) -> String {
	let t = args.get(2).cloned().or_else(|| std::env::var("VERIF_TIER").ok()).unwrap_or_else(|| "quick".into());
	if t == "thorough" {
		"thorough".into()
	} else {
		"quick".into()
	}
}

pub fn seed() -> i64 {
	std::env::var("VERIF_SEED").ok().and_then(|s| s.parse().ok()).unwrap_or(0)
}

#[derive(Clone, Debug)]
pub struct Known {
	pub prop: String,
	pub key: String,
	pub what: String,
}

pub fn load_known() -> Vec<Known> {
	let p = format!("{}/known_findings.json", verif_dir());
	let Ok(s) = std::fs::read_to_string(&p) else { return vec![] };
	let Ok(v) = serde_json::from_str::<Value>(&s) else {
		eprintln!("machinery: cannot parse {}", p);
		std::process::exit(2);
	};
	let mut out = vec![];
	if let Some(a) = v.get("findings").and_then(|f| f.as_array()) {
		for f in a {
			out.push(Known { prop: f["property"].as_str().unwrap_or("").to_string(), key: f["key"].as_str().unwrap_or("").to_string(), what: f["what"].as_str().unwrap_or("").to_string() });
		}
	}
	out
}

/// Glob match: `*` matches any (possibly empty) substring.
pub fn key_matches(pattern: &str, key: &str) -> bool {
	let parts: Vec<&str> = pattern.split('*').collect();
	if parts.len() == 1 {
		return pattern == key;
	}
	let mut pos = 0usize;
	for (i, p) in parts.iter().enumerate() {
		if i == 0 {
			if !key.starts_with(p) {
				return false;
			}
			pos = p.len();
		} else if i == parts.len() - 1 {
			return key.len() >= pos + p.len() && key.ends_with(p);
		} else {
			match key[pos..].find(p) {
				Some(j) => pos += j + p.len(),
				None => return false,
			}
		}
	}
	true
}

impl Report {
	pub fn new(prop: &str, tier: &str, level: &str) -> Self {
		Report {
			prop: prop.into(),
			tier: tier.into(),
			level: level.into(),
			start: Instant::now(),
			coverage: BTreeMap::new(),
			samples: vec![],
			assumptions: vec![],
			violations: vec![],
			xrefs: vec![],
			machinery: vec![],
			exhaustive: true,
			notes: vec![],
		}
	}
	pub fn set(&mut self, k: &str, v: impl Into<Value>) {
		self.coverage.insert(k.into(), v.into());
	}
	pub fn add(&mut self, k: &str, n: u64) {
		let cur = self.coverage.get(k).and_then(|v| v.as_u64()).unwrap_or(0);
		self.coverage.insert(k.into(), json!(cur + n));
	}
	pub fn get(&self, k: &str) -> u64 {
		self.coverage.get(k).and_then(|v| v.as_u64()).unwrap_or(0)
	}
	pub fn sample(&mut self, v: Value) {
		if self.samples.len() < 12 {
			self.samples.push(v);
		}
	}
	pub fn violation(&mut self, v: Viol) {
		let list = if v.prop == self.prop { &mut self.violations } else { &mut self.xrefs };
		if !list.iter().any(|x| x.key == v.key && x.prop == v.prop) {
			list.push(v);
		}
	}

	/// Write evidence, print verdict lines, exit.
	pub fn finish(mut self) -> ! {
		let known = load_known();
		let wall = self.start.elapsed().as_secs_f64();
		let mut unlisted = vec![];
		let mut listed = vec![];
		for v in &self.violations {
			match known.iter().find(|k| k.prop == v.prop && key_matches(&k.key, &v.key)) {
				Some(k) => listed.push((v.clone(), k.clone())),
				None => unlisted.push(v.clone()),
			}
		}
		let _ = std::fs::create_dir_all(format!("{}/evidence", verif_dir()));
		let _ = std::fs::create_dir_all(format!("{}/replays", verif_dir()));
		let mut cov: serde_json::Map<String, Value> = self.coverage.clone().into_iter().collect();
		if self.samples.is_empty() {
			self.samples.push(json!("(no sample recorded)"));
		}
		cov.insert("samples".into(), Value::Array(self.samples.clone()));
		cov.insert("exhaustive".into(), json!(self.exhaustive && self.machinery.is_empty()));
		if !self.notes.is_empty() {
			cov.insert("notes".into(), json!(self.notes));
		}
		cov.insert("known_findings_matched".into(), json!(listed.iter().map(|(v, _)| v.key.clone()).collect::<Vec<_>>()));
		cov.insert("cross_reference_violations".into(), json!(self.xrefs.iter().map(|v| format!("{}:{}", v.prop, v.key)).collect::<Vec<_>>()));
		let ev = json!({
			"property_id": self.prop,
			"tier": self.tier,
			"seed": seed(),
			"level": self.level,
			"coverage": Value::Object(cov),
			"assumptions": self.assumptions,
			"wall_s": wall,
			"violations": unlisted.len(),
		});
		let path = format!("{}/evidence/{}.json", verif_dir(), self.prop);
		if let Err(e) = std::fs::write(&path, serde_json::to_string_pretty(&ev).unwrap()) {
			eprintln!("machinery: cannot write {}: {}", path, e);
			std::process::exit(2);
		}
		for x in &self.xrefs {
			println!("XREF: property={} {} :: {}", x.prop, x.key, x.detail);
		}
		let mut seen_known = vec![];
		for (v, k) in &listed {
			if !seen_known.contains(&k.key) {
				seen_known.push(k.key.clone());
				println!("KNOWN-FINDING: property={} {} [{}] e.g. {}", v.prop, k.what, k.key, v.detail);
			}
		}
		for v in &unlisted {
			let mut h = DefaultHasher::new();
			v.key.hash(&mut h);
			let rp = format!("{}/replays/{}-{:016x}.json", verif_dir(), v.prop, h.finish());
			let body = json!({"property": v.prop, "key": v.key, "detail": v.detail, "replay": v.replay});
			let _ = std::fs::write(&rp, serde_json::to_string_pretty(&body).unwrap());
			println!("VIOLATION property={} replay={}", v.prop, rp);
			println!("  what: {} :: {}", v.key, v.detail);
		}
		for m in &self.machinery {
			eprintln!("MACHINERY-ERROR: {}", m);
		}
		println!(
			"{} {} [{}]: {} violation(s), {} known finding(s), {} machinery error(s), {:.1}s; coverage: {}",
			self.prop,
			self.tier,
			self.level,
			unlisted.len(),
			seen_known.len(),
			self.machinery.len(),
			wall,
			self.coverage.iter().filter(|(_, v)| v.is_number() || v.is_boolean()).map(|(k, v)| format!("{}={}", k, v)).collect::<Vec<_>>().join(" ")
		);
		if !unlisted.is_empty() {
			std::process::exit(1);
		}
		if !self.machinery.is_empty() {
			std::process::exit(2);
		}
		std::process::exit(0);
	}
}
