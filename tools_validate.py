#!/usr/bin/env python3
"""Validate MANIFEST.json and evidence/*.json against the schemas in /root/.vp."""
import json, sys, glob
import jsonschema
ok = True
def check(path, schema_path):
    global ok
    try:
        jsonschema.validate(json.load(open(path)), json.load(open(schema_path)))
        print("ok  ", path)
    except Exception as e:
        ok = False
        print("FAIL", path, str(e)[:400])
check('/verif/MANIFEST.json', '/root/.vp/MANIFEST.schema.json')
for f in sorted(glob.glob('/verif/evidence/*.json')):
    check(f, '/root/.vp/EVIDENCE.schema.json')
sys.exit(0 if ok else 1)
