#!/bin/bash
# usage: ./run.sh <C01..C17|replay> <quick|thorough|replay-file>
# Rebuilds the harness against /repo's current working tree (cargo tracks the path dependency), then runs the check.
set -u
if [ "${1:-}" = "replay" ] && [ -n "${2:-}" ]; then set -- replay "$(readlink -f "$2")"; fi
cd /verif/harness || exit 2
export CARGO_NET_OFFLINE=true
if ! cargo build --release -q 2>/verif/harness/build.err; then
  echo "MACHINERY-ERROR: harness does not build against /repo's working tree" >&2
  tail -40 /verif/harness/build.err >&2
  exit 2
fi
exec /verif/harness/target/release/hlverif "$@"
